package main

import (
	"fmt"
	"strings"

	"github.com/frankkopp/FrankyGo/internal/movegen"
	"github.com/frankkopp/FrankyGo/internal/position"
	. "github.com/frankkopp/FrankyGo/internal/types"

	"github.com/frankkopp/FrankyGo/verif/eng"
	"github.com/frankkopp/FrankyGo/verif/refchess"
	"github.com/frankkopp/FrankyGo/verif/space"
	"github.com/frankkopp/FrankyGo/verif/vl"
)

func init() { registry["C04"] = c04 }

// incr is the incrementally maintained state the property talks about.
type incr struct {
	key            position.Key
	pieces         [2][7]Bitboard
	occ            [2]Bitboard
	king           [2]Square
	material, nonP [2]Value
	mid, end       [2]Value
	phase          int
}

func takeIncr(p *position.Position) incr {
	var s incr
	s.key = p.ZobristKey()
	for c := White; c <= Black; c++ {
		for pt := PtNone; pt < PtLength; pt++ {
			s.pieces[c][pt] = p.PiecesBb(c, pt)
		}
		s.occ[c] = p.OccupiedBb(c)
		s.king[c] = p.KingSquare(c)
		s.material[c] = p.Material(c)
		s.nonP[c] = p.MaterialNonPawn(c)
		s.mid[c] = p.PsqMidValue(c)
		s.end[c] = p.PsqEndValue(c)
	}
	s.phase = p.GamePhase()
	return s
}

func incrDiffs(a, b incr) []string {
	var d []string
	add := func(c bool, n string) {
		if c {
			d = append(d, n)
		}
	}
	add(a.key != b.key, "zobristkey")
	add(a.pieces != b.pieces, "piecesBb")
	add(a.occ != b.occ, "occupiedBb")
	add(a.king != b.king, "kingsquare")
	add(a.material != b.material, "material")
	add(a.nonP != b.nonP, "materialNonPawn")
	add(a.mid != b.mid, "psqMid")
	add(a.end != b.end, "psqEnd")
	add(a.phase != b.phase, "gamephase")
	return d
}

// fromBoard recomputes the totals from the pieces actually on the board using the published per-piece values.
func fromBoard(p *position.Position) incr {
	var s incr
	for sq := SqA1; sq <= SqH8; sq++ {
		pc := p.GetPiece(sq)
		if pc == PieceNone {
			continue
		}
		c, pt := pc.ColorOf(), pc.TypeOf()
		s.pieces[c][pt] |= sq.Bb()
		s.occ[c] |= sq.Bb()
		if pt == King {
			s.king[c] = sq
		}
		s.material[c] += pt.ValueOf()
		if pt != Pawn && pt != King {
			s.nonP[c] += pt.ValueOf()
		}
		s.mid[c] += PosMidValue(pc, sq)
		s.end[c] += PosEndValue(pc, sq)
		s.phase += pt.GamePhaseValue()
	}
	if s.phase > GamePhaseMax {
		s.phase = GamePhaseMax
	}
	return s
}

type c04user struct {
	keys      map[position.Key]string // bounded key -> identity table (gross collisions)
}

const c04KeyCap = 300000

func keyOfFen(fen string) (position.Key, bool) {
	q, err := position.NewPositionFen(fen)
	if err != nil || q == nil {
		return 0, false
	}
	return q.ZobristKey(), true
}

// c04State checks one visited state (p is live: from FEN in the families, reached by play in the trees).
func c04State(w *wctx, p *position.Position, r *refchess.Pos) {
	run := w.run
	u := w.user.(*c04user)
	live := takeIncr(p)
	fen := p.StringFen()
	fresh, err := position.NewPositionFen(fen)
	if err != nil {
		run.Violate("own-fen-rejected", "the engine rejects its own FEN output", w.replayOf(r, map[string]interface{}{"engine_fen": fen}))
		return
	}
	reportIncr := func(prefix string, diffs []string, extra map[string]interface{}) {
		for _, d := range diffs {
			if d == "gamephase" && w.clampSeen {
				run.Violate(keyClamp, whatClamp, w.replayOf(r, extra))
				continue
			}
			run.Violate(prefix+":"+d, prefix+": "+d+" differs", w.replayOf(r, extra))
		}
	}
	// (a) incremental == fresh from own FEN
	reportIncr("incremental-vs-fresh", incrDiffs(live, takeIncr(fresh)), map[string]interface{}{"engine_fen": fen})
	// (b) totals == sums over the board
	fb := fromBoard(p)
	fb.key = live.key
	reportIncr("incremental-vs-boardsum", incrDiffs(live, fb), nil)
	// (c) key is a function of the identity: canonical FEN and every shorter spelling whose defaults apply
	id := r.Identity()
	f := strings.Fields(id)
	spell := []string{id + " 0 1", id + " 42 77", id}
	if f[3] == "-" {
		spell = append(spell, strings.Join(f[:3], " "))
		if f[2] == "-" {
			spell = append(spell, strings.Join(f[:2], " "))
			if f[1] == "w" {
				spell = append(spell, f[0])
			}
		}
	}
	for i, sp := range spell {
		k, ok := keyOfFen(sp)
		run.AddEvals(1)
		if !ok {
			run.Violate("fen-spelling-rejected", "valid FEN spelling rejected", w.replayOf(r, map[string]interface{}{"spelling": sp}))
			continue
		}
		if k != live.key {
			cls := "key-differs-by-construction"
			switch {
			case r.EP >= 0:
				cls = "key-differs:ep-square-in-fen"
			case i >= 3:
				cls = fmt.Sprintf("key-differs:fen-with-%d-fields", len(strings.Fields(sp)))
			}
			run.Violate(cls, "same placement/side/rights/ep but different hash key depending on how the position was constructed",
				w.replayOf(r, map[string]interface{}{"spelling": sp, "live_key": uint64(live.key), "spelling_key": uint64(k)}))
		}
	}
	// gross collisions: bounded table key -> identity
	if prev, ok := u.keys[live.key]; ok {
		if prev != id {
			run.Violate("key-collision", "two different identities with the same key", w.replayOf(r, map[string]interface{}{"other": prev}))
		}
	} else if len(u.keys) < c04KeyCap {
		u.keys[live.key] = id
	}
	// (d) sensitivity: identity neighbours must have different keys
	c04Neighbours(w, r, live.key)
	// successors: the key after every legal move equals the key of the successor built from its FEN
	noteClamp(w, p)
	legal := append([]Move{}, (*w.mg.GenerateLegalMoves(p, movegen.GenAll))...)
	for _, m := range legal {
		p.DoMove(m)
		k := p.ZobristKey()
		sf := p.StringFen()
		p.UndoMove()
		run.AddTransitions(1)
		k2, ok := keyOfFen(sf)
		if ok && k != k2 {
			cls := "successor-key"
			if r.EP >= 0 && w.seed == "" {
				cls = "successor-key:after-fen-with-ep"
			} else if p.GetEnPassantSquare() == SqNone && eng.TupleOfEng(m).Kind == refchess.Normal && strings.Fields(sf)[3] != "-" {
				cls = "successor-key:double-push"
			}
			run.Violate(cls, "key after DoMove differs from the key of the same position set up from FEN",
				w.replayOf(r, map[string]interface{}{"move": m.StringUci(), "successor_fen": sf}))
		}
	}
}

// c04Neighbours: positions differing in exactly one identity component must not share the key.
func c04Neighbours(w *wctx, r *refchess.Pos, key position.Key) {
	run := w.run
	seen := map[position.Key]string{key: r.Identity()}
	try := func(q *refchess.Pos, what string) {
		id := q.Identity()
		if id == r.Identity() {
			return
		}
		k, ok := keyOfFen(id + " 0 1")
		run.AddEvals(1)
		if !ok {
			return
		}
		if prev, dup := seen[k]; dup && prev != id {
			run.Violate("key-insensitive:"+what, "positions differing in "+what+" have the same key",
				w.replayOf(r, map[string]interface{}{"neighbour": id, "same_key_as": prev}))
			return
		}
		seen[k] = id
	}
	q := r.Clone()
	q.White = !r.White
	q.EP = -1
	r0 := r.Clone()
	r0.EP = -1
	if r.EP < 0 {
		try(q, "side-to-move")
	}
	// castling rights: every other subset
	for mask := 0; mask < 16; mask++ {
		q = r.Clone()
		for i := 0; i < 4; i++ {
			q.Cast[i] = mask&(1<<uint(i)) != 0
		}
		try(q, "castling-rights")
	}
	// ep field: cleared / set on each file (rank implied by side)
	q = r.Clone()
	q.EP = -1
	try(q, "ep-square")
	for fl := 0; fl < 8; fl++ {
		q = r.Clone()
		if r.White {
			q.EP = 40 + fl
		} else {
			q.EP = 16 + fl
		}
		try(q, "ep-square")
	}
	// each piece removed / shifted to an adjacent empty square (kings only shifted)
	for s := 0; s < 64; s++ {
		if r.B[s] == 0 {
			continue
		}
		if r.B[s] != refchess.King && r.B[s] != -refchess.King {
			q = r.Clone()
			q.B[s] = 0
			try(q, "placement")
		}
		for _, d := range []int{1, -1, 8, -8} {
			t := s + d
			if t < 0 || t > 63 || r.B[t] != 0 || (d == 1 && s%8 == 7) || (d == -1 && s%8 == 0) {
				continue
			}
			if (r.B[s] == refchess.Pawn || r.B[s] == -refchess.Pawn) && (t < 8 || t >= 56) {
				continue
			}
			q = r.Clone()
			q.B[t], q.B[s] = q.B[s], 0
			try(q, "placement")
		}
	}
}

func c04(tier string, args []string) int {
	run := vl.NewRun("C04", tier)
	run.Rule("every state of the k-man families (set up from FEN) and of the game trees (reached by play on one live position): incremental state vs fresh-from-own-FEN vs sums over the board; key vs every FEN spelling of the same identity; key of every identity neighbour differs; key after every legal move vs key of the successor's FEN")
	run.SetDeadline(budget(tier))
	depth, seeds := 2, quickSeeds()
	fams := []family{
		famP3(space.P3Opt{Quadrant: true}, "P3(extra piece in a1-d4)"),
		famPEP([]int8{}, true, "PEP(kings+pawns, second capturer)"),
		famPPromo(),
	}
	if tier == "thorough" {
		depth, seeds = 3, space.AllSeeds()
		fams = []family{famP3(space.P3Opt{}, "P3"), famPCastle(0), famPEP([]int8{space.R}, true, "PEP(extra=rook, second capturer)"), famPPromo()}
	}
	nu := func() interface{} { return &c04user{keys: map[position.Key]string{}} }
	runTree(run, seeds, depth, nu, c04State)
	runFamilies(run, fams, nu, c04State)
	c04Walks(run, tier)
	return run.Finish()
}

// c04Walks: long histories (up to the 512-ply capacity): at every ply of the deterministic walks the live position - after
// a null-move excursion where the side to move is not in check, as a search makes them - has the key, the FEN and the
// incremental counters of a fresh position built from its own FEN.
func c04Walks(run *vl.Run, tier string) {
	specs := walkSpecs[:4]
	if tier == "thorough" {
		specs = walkSpecs
	}
	vl.Parallel(len(specs), func(i, n int) {
		ws := specs[i]
		_, seq := walkMoves(ws)
		p, err := position.NewPositionFen(ws.fen)
		if err != nil {
			return
		}
		r := refchess.MustFEN(ws.fen)
		mgc := movegen.NewMoveGen()
		clamp := false
		rep := map[string]interface{}{"kind": "walk", "fen": ws.fen, "rule": fmt.Sprintf("(%d*i+%d) mod n", ws.a, ws.b)}
		msg, pan := vl.Guard(func() {
			for k, m := range seq {
				if run.Expired() {
					return
				}
				if !r.InCheck(r.White) {
					p.DoNullMove()
					p.UndoNullMove()
				}
				run.AddStates(1)
				run.Count("walk_plies_checked", 1)
				fen := p.StringFen()
				fp, err := position.NewPositionFen(fen)
				rep["ply"] = k
				switch {
				case fen != r.FEN():
					run.Violate("walk:fen-"+fenDiffField(fen, r.FEN()), fmt.Sprintf("after %d plies (null-move excursions on the way) the FEN is %q, the rules give %q", k, fen, r.FEN()), rep)
					return
				case err != nil:
					run.Violate("walk:own-fen-rejected", err.Error(), rep)
					return
				case fp.ZobristKey() != p.ZobristKey():
					run.Violate("walk:incremental-vs-fresh:zobristkey", fmt.Sprintf("after %d plies the incremental key differs from the key of a fresh position from the same FEN %q", k, fen), rep)
					return
				case fp.Material(White) != p.Material(White) || fp.Material(Black) != p.Material(Black) || fp.PsqMidValue(White) != p.PsqMidValue(White) || fp.PsqMidValue(Black) != p.PsqMidValue(Black):
					run.Violate("walk:incremental-vs-fresh:material-psq", fmt.Sprintf("after %d plies material / piece-square sums differ from a fresh position (%q)", k, fen), rep)
					return
				case fp.GamePhase() != p.GamePhase() && !clamp:
					run.Violate("walk:incremental-vs-fresh:gamephase", fmt.Sprintf("after %d plies the game phase differs from a fresh position (%q)", k, fen), rep)
					return
				}
				em := eng.EngMove(m)
				if isClampEvent(p, em) {
					clamp = true
				}
				for _, pm := range *mgc.GeneratePseudoLegalMoves(p, movegen.GenAll, false) {
					if isClampEvent(p, pm) {
						clamp = true // legal-move generation makes and unmakes every pseudo-legal move
					}
				}
				p.DoMove(em)
				r = r.Make(m)
				run.AddTransitions(1)
			}
		})
		if pan {
			run.Violate("walk-panic", "walk within capacity panicked: "+msg, rep)
		}
	})
}

// noteClamp marks the live position as possibly drifted when any pseudo-legal move here is a clamp
// event: the engine's own legal-move generation makes and unmakes every pseudo-legal move.
func noteClamp(w *wctx, p *position.Position) {
	if w.clampSeen {
		return
	}
	for _, m := range *w.mg2.GeneratePseudoLegalMoves(p, movegen.GenAll, false) {
		if isClampEvent(p, m) {
			w.clampSeen = true
			return
		}
	}
}
