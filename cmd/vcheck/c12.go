package main

import (
	"bufio"
	"fmt"
	"os"
	"sort"
	"strings"
	"time"

	"github.com/frankkopp/FrankyGo/internal/config"
	"github.com/frankkopp/FrankyGo/internal/uci"

	"github.com/frankkopp/FrankyGo/verif/refchess"
	"github.com/frankkopp/FrankyGo/verif/sched"
	"github.com/frankkopp/FrankyGo/verif/vl"
)

func init() { registry["C12"] = c12 }

// ---- a scripted GUI talking to the real UciHandler under the scheduler ----

// uciSession is the state of one execution.
type uciSession struct {
	h     *uci.UciHandler
	lines []string // everything the engine wrote
	part  string
	vc    sched.VC // pipe: a write releases, a GUI read acquires
	best  int      // bestmove lines seen
	ready int      // readyok lines seen
}

func (s *uciSession) Write(b []byte) (int, error) {
	s.part += string(b)
	for {
		i := strings.IndexByte(s.part, '\n')
		if i < 0 {
			break
		}
		line := strings.TrimRight(s.part[:i], "\r")
		s.part = s.part[i+1:]
		s.lines = append(s.lines, line)
		switch {
		case strings.HasPrefix(line, "bestmove"):
			s.best++
			sched.Record("out", line)
		case line == "readyok":
			s.ready++
			sched.Record("out", line)
		case strings.HasPrefix(line, "info string"):
			sched.Record("info", line)
		}
	}
	s.vc.ReleaseHB()
	return len(b), nil
}

var devnull *os.File

// silenceStdout: the UCI handler logs every line to the os.Stdout it finds when it is created.
func silenceStdout() {
	if devnull == nil {
		devnull, _ = os.OpenFile(os.DevNull, os.O_WRONLY, 0)
		vl.Out = os.Stdout
		os.Stdout = devnull
	}
}

func newSession() *uciSession {
	s := &uciSession{}
	s.h = uci.NewUciHandler()
	s.h.OutIo = bufio.NewWriter(s)
	return s
}

// send feeds one line to the command dispatcher exactly as Loop does.
func (s *uciSession) send(line string) {
	sched.Record("cmd", line)
	s.h.VerifHandle(line)
	sched.Record("done", line)
}

// await blocks the GUI until the engine has written n bestmove lines.
func (s *uciSession) await(n int) {
	sched.Record("await", fmt.Sprint(n))
	sched.Point("gui.read")
	sched.Block("gui waiting for bestmove", func() bool { return s.best >= n })
	s.vc.AcquireHB()
	sched.Record("seen", fmt.Sprint(n))
}

// ---- command alphabet and protocol-validity model ----

type uciCmd struct {
	line string
	kind string // isready newgame position go-timed go-infinite go-ponder stop ponderhit await idle
	fen  string // resulting position for position commands (refchess replay)
}

const (
	stIdle = iota
	stTimed
	stInfinite
	stPonder
)

var posAfterE4 = refchess.MustFEN(refchess.MustFEN("rnbqkbnr/pppppppp/8/8/8/8/PPPPPPPP/RNBQKBNR w KQkq - 0 1").Make(mustUci("rnbqkbnr/pppppppp/8/8/8/8/PPPPPPPP/RNBQKBNR w KQkq - 0 1", "e2e4")).FEN())

func mustUci(fen, u string) refchess.Move {
	m, ok := refchess.MustFEN(fen).FindUci(u)
	if !ok {
		panic("bad move " + u)
	}
	return m
}

var c12Alphabet = []uciCmd{
	{"isready", "isready", ""},
	{"ucinewgame", "newgame", refchess.MustFEN("rnbqkbnr/pppppppp/8/8/8/8/PPPPPPPP/RNBQKBNR w KQkq - 0 1").FEN()},
	{"position fen " + lcFens["A"], "position", lcFens["A"]},
	{"position fen " + lcFens["B"], "position", lcFens["B"]},
	{"position fen " + lcFens["D"], "position", lcFens["D"]},
	{"position fen " + lcFens["A"] + " moves a1b1 e2d2", "position", refchess.MustFEN(lcFens["A"]).Make(mustUci(lcFens["A"], "a1b1")).Make(refchess.Move{From: 12, To: 11}).FEN()},
	{"go depth 1", "go-timed", ""},
	{"go movetime 65 depth 1", "go-timed", ""}, // answered at once (depth 1), long before its 45 ms budget runs out
	{"go infinite depth 1", "go-infinite", ""},
	{"go ponder wtime 300 btime 300 depth 1", "go-ponder", ""},
	{"go ponder depth 1", "go-ponder", ""}, // pondering without time control: ponderhit turns it into a search that ends at once
	{"stop", "stop", ""},
	{"ponderhit", "ponderhit", ""},
	{"<await bestmove>", "await", ""},
	{"<idle 20ms>", "idle", ""},
}

// c12Programs: every protocol-valid sequence up to maxLen (closed by c12Body with stop / await / isready).
func c12Programs(maxLen int) [][]int {
	var res [][]int
	var gen func(cur []int, st int)
	gen = func(cur []int, st int) {
		if len(cur) > 0 {
			res = append(res, append([]int{}, cur...))
		}
		if len(cur) == maxLen {
			return
		}
		for i, c := range c12Alphabet {
			ns := st
			switch c.kind {
			case "isready", "idle":
			case "newgame", "position":
				if st != stIdle {
					continue
				}
			case "go-timed":
				if st != stIdle {
					continue
				}
				ns = stTimed
			case "go-infinite":
				if st != stIdle {
					continue
				}
				ns = stInfinite
			case "go-ponder":
				if st != stIdle {
					continue
				}
				ns = stPonder
			case "stop":
				if st == stIdle {
					continue
				}
				ns = stTimed
			case "ponderhit":
				if st != stPonder {
					continue
				}
				ns = stTimed
			case "await":
				if st != stTimed {
					continue
				}
				ns = stIdle
			}
			gen(append(cur, i), ns)
		}
	}
	gen(nil, stIdle)
	return res
}

func c12Name(prog []int) string {
	var s []string
	for _, i := range prog {
		s = append(s, c12Alphabet[i].line)
	}
	return strings.Join(s, " | ")
}

// c12Body: the GUI thread. Returns through the closure the session for the oracle.
func c12Body(prog []int, out **uciSession) func() {
	return func() {
		config.Settings.Search.UseBook = false
		config.Settings.Search.TTSize = 1
		s := newSession()
		*out = s
		st := stIdle
		gos := 0
		for _, i := range prog {
			c := c12Alphabet[i]
			switch c.kind {
			case "await":
				s.await(gos)
				st = stIdle
			case "idle":
				sched.Sleep(20 * time.Millisecond)
			default:
				if strings.HasPrefix(c.kind, "go") {
					gos++
					sched.Record("go", fmt.Sprintf("%d %s best=%d", gos, c.kind, s.best))
					switch c.kind {
					case "go-timed":
						st = stTimed
					case "go-infinite":
						st = stInfinite
					case "go-ponder":
						st = stPonder
					}
				}
				if c.kind == "stop" || c.kind == "ponderhit" {
					sched.Record("release", fmt.Sprintf("%d best=%d", gos, s.best))
					st = stTimed
				}
				s.send(c.line)
				if c.kind == "position" || c.kind == "newgame" {
					sched.Record("fen", s.h.VerifFen())
				}
			}
		}
		// close the session
		if st == stInfinite || st == stPonder {
			// the GUI lets the search run for a while before it stops it (long enough for the budget of an earlier
			// time-controlled search to run out): nothing may answer it meanwhile
			sched.Sleep(60 * time.Millisecond)
			sched.Record("release", fmt.Sprintf("%d best=%d", gos, s.best))
			s.send("stop")
			st = stTimed
		}
		if st == stTimed {
			s.await(gos)
		}
		s.send("isready")
		sched.Record("end", fmt.Sprintf("gos=%d best=%d", gos, s.best))
	}
}

func c12Oracle(prog []int, x *sched.Exec, sess *uciSession) []lcVerdict {
	var v []lcVerdict
	lastCmd := ""
	for _, e := range x.Events {
		if e.Name == "cmd" || e.Name == "await" {
			lastCmd = e.Name + " " + e.Arg
		}
		if e.Name == "done" || e.Name == "seen" {
			lastCmd = ""
		}
	}
	switch x.Verdict {
	case "deadlock", "horizon":
		key := "hang"
		switch {
		case strings.HasPrefix(lastCmd, "await"):
			key = "bestmove-missing:gui-waits-forever"
			// which go lost its answer? a go sent right after a bestmove was seen is the known mechanism
			for i, e := range x.Events {
				if e.Name == "seen" {
					for _, e2 := range x.Events[i+1:] {
						if e2.Name == "go" {
							key = "bestmove-missing:go-right-after-bestmove"
						}
						if e2.Name == "cmd" || e2.Name == "go" {
							break
						}
					}
				}
			}
		case lastCmd != "":
			key = "handler-blocked-in:" + strings.Fields(lastCmd)[1]
		}
		v = append(v, lcVerdict{key, x.Verdict + ": " + x.Detail})
	case "panic":
		v = append(v, lcVerdict{"panic", x.Detail})
	case "divergence":
		v = append(v, lcVerdict{"INFRA:divergence", x.Detail})
	}
	names := make([]string, 0, len(x.Races))
	for n := range x.Races {
		names = append(names, n)
	}
	sort.Strings(names)
	for _, n := range names {
		if strings.HasPrefix(n, "Search.") {
			continue // the search's own shared state is judged by C14
		}
		r := x.Races[n]
		v = append(v, lcVerdict{"race:" + n, fmt.Sprintf("data race (%s) on %s between %s and %s", r.Kind, n, r.First, r.Other)})
	}
	if x.Verdict != "" {
		return v
	}
	// bestmove accounting
	gos, best := 0, 0
	type pend struct {
		kind     string
		released bool
		goT      time.Duration
	}
	var open *pend
	var timedBestT time.Duration = -1 // virtual time of the last bestmove of a time-controlled (or ponder) search
	isreadyOpen := false
	var lastFenCmd string
	for _, e := range x.Events {
		switch e.Name {
		case "go":
			gos++
			f := strings.Fields(e.Arg)
			open = &pend{kind: f[1], goT: e.T}

		case "release":
			if open != nil {
				open.released = true
			}
		case "out":
			if strings.HasPrefix(e.Arg, "bestmove") {
				best++
				if best > gos {
					v = append(v, lcVerdict{"bestmove-unrequested", "more bestmove lines than go commands"})
				}
				if open != nil && (open.kind == "go-infinite" || open.kind == "go-ponder") && !open.released {
					key := "bestmove-before-stop:" + open.kind
					if timedBestT >= 0 && (open.goT-timedBestT <= lcPollWindow || x.Deviations() > 0) {
						// the open C14 finding seen through UCI: this go arrived within one polling period (5 ms) after the
						// bestmove of an earlier time-controlled search (or the old timer thread was preempted / starved in this
						// schedule), whose timer thread lives on and stops this search
						key = "bestmove-before-stop:leftover-timer-of-earlier-search"
					}
					v = append(v, lcVerdict{key, fmt.Sprintf("%s answered at t=%v before stop/ponderhit was sent", open.kind, e.T)})
				}
				if open != nil && (open.kind == "go-timed" || open.kind == "go-ponder") {
					timedBestT = e.T
				}
				open = nil
			}
			if e.Arg == "readyok" {
				if !isreadyOpen {
					v = append(v, lcVerdict{"readyok-unrequested", "readyok without isready"})
				}
				isreadyOpen = false
			}
		case "cmd":
			if e.Arg == "isready" {
				isreadyOpen = true
			}
			if strings.HasPrefix(e.Arg, "position") || e.Arg == "ucinewgame" {
				lastFenCmd = e.Arg
			}
		case "done":
			if e.Arg == "isready" && isreadyOpen {
				v = append(v, lcVerdict{"readyok-missing", "isready returned without readyok"})
				isreadyOpen = false
			}
		case "fen":
			want := ""
			for _, c := range c12Alphabet {
				if c.line == lastFenCmd {
					want = c.fen
				}
			}
			if want != "" && refchess.MustFEN(want).Identity() != identityOfFen(e.Arg) {
				v = append(v, lcVerdict{"position-wrong", fmt.Sprintf("after %q the engine is on %q, expected %q", lastFenCmd, e.Arg, want)})
			}
		}
	}
	if best != gos {
		v = append(v, lcVerdict{"bestmove-count", fmt.Sprintf("%d go commands but %d bestmove lines", gos, best)})
	}
	return v
}

func identityOfFen(f string) string {
	r, err := refchess.ParseFEN(f)
	if err != nil {
		return "invalid:" + f
	}
	return r.Identity()
}

func c12(tier string, args []string) int {
	run := vl.NewRun("C12", tier)
	if !sched.IsInstrumented("search") || !sched.IsInstrumented("uci") {
		fmt.Fprintln(os.Stderr, "C12 needs the instrumented build")
		return 2
	}
	run.Rule("every protocol-valid UCI command sequence up to the stated length (isready, ucinewgame, position, go depth/movetime/infinite/ponder, stop, ponderhit, wait-for-bestmove, idle) fed to the real UciHandler by a scripted GUI thread, each explored over all schedules within the deviation bound; oracle: #bestmove = #go, none before the matching stop/ponderhit, readyok per isready, no deadlock/hang/panic, position after each position command; plus complete sweeps: position command over game-tree move lists, ucinewgame vs fresh engine, every setoption (singles and pairs) vs Print Config")
	maxLen, bound := 3, 1
	if tier == "thorough" {
		maxLen, bound = 4, 1
	}
	progs := c12Programs(maxLen)
	shard, n, worker := vl.WorkerShard()
	if !worker {
		run.Set("programs", len(progs))
		run.Set("max_program_length", maxLen)
		run.Set("deviation_bound", bound)
		return run.RunWorkers(17)
	}
	silenceStdout()
	run.SetDeadline(budget(tier))
	if shard == n-1 {
		// the setoption sweep changes the process-global configuration: it has a worker process of its own
		c12Setoption(run, tier)
		return run.FinishWorker()
	}
	n--
	var execs int64
	for pi, prog := range progs {
		if pi%n != shard || run.Expired() {
			continue
		}
		var sess *uciSession
		ex := &sched.Explorer{Bound: bound, Body: c12Body(prog, &sess), MaxExec: 100000}
		ex.Check = func(x *sched.Exec) {
			run.AddTransitions(int64(x.Steps))
			for _, vd := range c12Oracle(prog, x, sess) {
				if strings.HasPrefix(vd.key, "INFRA") {
					fmt.Fprintln(os.Stderr, "infrastructure error:", vd.what)
					os.Exit(2)
				}
				run.Violate(vd.key, vd.what, map[string]interface{}{"kind": "schedule", "program": c12Name(prog), "choices": x.Choices, "events": x.EventsString()})
			}
		}
		ex.Explore()
		execs += int64(ex.Executions)
		if ex.Capped {
			run.Cap("execution cap reached for some programs")
		}
		run.AddStates(1)
		if pi%211 == 0 {
			run.SampleCat("program", map[string]interface{}{"program": c12Name(prog), "schedules": ex.Executions, "max_choice_points": ex.MaxPoints})
		}
	}
	run.AddEvals(execs)
	run.Count("executions", execs)
	if shard == 0 {
		c12RealSearches(run)
	}
	if shard == 1%n {
		c12TerminalRoots(run)
	}
	c12PositionSweep(run, tier, shard, n)
	c12NewGame(run, shard, n)
	c12NewGameDeep(run, shard, n)
	return run.FinishWorker()
}

// ---- setoption vs Print Config ----

var optionField = map[string]string{
	"Use_Hash": "UseTT", "Hash": "TTSize", "Use_Book": "UseBook", "Ponder": "UsePonder", "Quiescence": "UseQuiescence", "Use_QHash": "UseQSTT",
	"Use_SEE": "UseSEE", "Use_PromNonQuiet": "UsePromNonQuiet", "Use_PVS": "UsePVS", "Use_ASP": "UseAspiration", "Use_MTDf": "UseMTDf",
	"Use_IID": "UseIID", "Use_Killer": "UseKiller", "Use_HistCount": "UseHistoryCounter", "Use_CounterMove": "UseCounterMoves",
	"Use_Rfp": "UseRFP", "Use_NullMove": "UseNullMove", "Use_Mdp": "UseMDP", "Use_Fp": "UseFP", "Use_Lmr": "UseLmr", "Use_Lmp": "UseLmp",
	"Use_Ext": "UseExt", "Use_ExtAddDepth": "UseExtAddDepth", "Use_CheckExt": "UseCheckExt", "Use_ThreatExt": "UseThreatExt",
	"Eval_Lazy": "UseLazyEval", "Eval_Mobility": "UseMobility", "Eval_AdvPiece": "UseAdvancedPieceEval",
}

// printConfig parses the engine's own configuration print-out into field -> value.
func printConfig(s *uciSession) map[string]string {
	start := len(s.lines)
	s.h.VerifHandle("setoption name Print Config")
	cfg := map[string]string{}
	for _, l := range s.lines[start:] {
		l = strings.TrimPrefix(l, "info string ")
		parts := strings.SplitN(l, "=", 2)
		if len(parts) != 2 {
			continue
		}
		f := strings.Fields(parts[0])
		if len(f) >= 3 {
			cfg[f[len(f)-2]] = strings.TrimSpace(parts[1]) // "<no>: <field> <type> = <value>"
		}
	}
	return cfg
}

func c12Setoption(run *vl.Run, tier string) {
	config.Settings.Search.UseBook = false
	s := newSession()
	type setting struct{ opt, val string }
	var singles []setting
	var names []string
	for o := range optionField {
		names = append(names, o)
	}
	sort.Strings(names)
	for _, o := range names {
		if o == "Hash" {
			for _, v := range []string{"1", "2", "0"} {
				singles = append(singles, setting{o, v})
			}
			continue
		}
		singles = append(singles, setting{o, "true"}, setting{o, "false"})
	}
	base := printConfig(s)
	if len(base) < 40 {
		run.Violate("printconfig-unreadable", fmt.Sprintf("Print Config produced only %d fields", len(base)), map[string]interface{}{"lines": len(s.lines)})
		return
	}
	apply := func(st setting, before map[string]string, hist []string) map[string]string {
		cmd := "setoption name " + st.opt + " value " + st.val
		s.h.VerifHandle(cmd)
		after := printConfig(s)
		run.AddStates(1)
		field := optionField[st.opt]
		for k, v := range after {
			want := before[k]
			if k == field {
				want = st.val
			}
			if v != want {
				cls := "setoption-changes-other-field"
				if k == field {
					cls = "setoption-not-applied"
				}
				run.Violate(cls+":"+st.opt, fmt.Sprintf("after %q field %s = %s, expected %s", cmd, k, v, want), map[string]interface{}{"kind": "uci", "commands": append(append([]string{}, hist...), cmd)})
			}
		}
		return after
	}
	cur := base
	for _, a := range singles {
		cur = apply(a, cur, nil)
	}
	// pairs
	step := 1
	if tier != "thorough" {
		step = 3
	}
	for i := 0; i < len(singles); i += step {
		for j := 0; j < len(singles); j += step {
			if singles[i].opt == "Hash" || singles[j].opt == "Hash" {
				continue
			}
			cur = apply(singles[i], cur, nil)
			cur = apply(singles[j], cur, []string{"setoption name " + singles[i].opt + " value " + singles[i].val})
		}
	}
	// malformed / unknown options leave everything as it is; buttons change nothing
	for _, cmd := range []string{"setoption name Clear Hash", "setoption name NoSuchOption value 1", "setoption", "setoption name", "setoption value 3"} {
		before := printConfig(s)
		msg, pan := vl.Guard(func() { s.h.VerifHandle(cmd) })
		if pan {
			run.Violate("setoption-panic", cmd+": "+msg, map[string]interface{}{"kind": "uci", "commands": []string{cmd}})
			continue
		}
		after := printConfig(s)
		for k, v := range after {
			if before[k] != v {
				run.Violate("setoption-changes-other-field:malformed", fmt.Sprintf("after %q field %s changed", cmd, k), map[string]interface{}{"kind": "uci", "commands": []string{cmd}})
			}
		}
	}
	run.Set("setoption_settings", len(singles))
}

// ---- position command: complete sweep over game-tree move lists ----

func c12PositionSweep(run *vl.Run, tier string, shard, n int) {
	depth := 2
	if tier == "thorough" {
		depth = 3
	}
	seeds := []string{"rnbqkbnr/pppppppp/8/8/8/8/PPPPPPPP/RNBQKBNR w KQkq - 0 1", "r3k2r/p1ppqpb1/bn2pnp1/3PN3/1p2P3/2N2Q1p/PPPBBPPP/R3K2R w KQkq - 0 1",
		"8/8/8/1k1pP3/8/8/8/4K2R w K d6 0 2", "n1n5/PPPk4/8/8/8/8/4Kppp/5N1N b - - 0 1", "r3k2r/8/8/8/8/8/8/R3K2R b KQkq - 3 20", "8/8/8/8/8/8/4k3/K7 w - - 97 80"}
	s := newSession()
	var cases int64
	check := func(cmd string, want *refchess.Pos, reps int) {
		cases++
		msg, pan := vl.Guard(func() { s.h.VerifHandle(cmd) })
		rep := map[string]interface{}{"kind": "uci", "commands": []string{cmd}}
		if pan {
			run.Violate("position-panic", msg, rep)
			s = newSession()
			return
		}
		got := s.h.VerifFen()
		if got != want.FEN() {
			run.Violate("position-wrong:"+fenDiffField(got, want.FEN()), fmt.Sprintf("engine on %q, expected %q", got, want.FEN()), rep)
			return
		}
		p := s.h.VerifPosition()
		for k := 1; k <= 2; k++ {
			if p.CheckRepetitions(k) != (reps >= k) {
				run.Violate("position-repetition-history", fmt.Sprintf("after the move list the position occurred %d times before but CheckRepetitions(%d)=%v", reps, k, p.CheckRepetitions(k)), rep)
			}
		}
	}
	for si, seed := range seeds {
		if si%n != shard {
			continue
		}
		root := refchess.MustFEN(seed)
		var walk func(r *refchess.Pos, moves []string, d int)
		walk = func(r *refchess.Pos, moves []string, d int) {
			cmd := "position fen " + seed
			if len(moves) > 0 {
				cmd += " moves " + strings.Join(moves, " ")
			}
			check(cmd, r, 0)
			if si == 0 {
				c2 := "position startpos"
				if len(moves) > 0 {
					c2 += " moves " + strings.Join(moves, " ")
				}
				check(c2, r, 0)
			}
			if d == 0 {
				return
			}
			for _, m := range r.LegalMoves() {
				walk(r.Make(m), append(append([]string{}, moves...), m.String()), d-1)
			}
		}
		walk(root, nil, depth)
	}
	if shard == 0 {
		// move lists with repetitions
		start := refchess.MustFEN("rnbqkbnr/pppppppp/8/8/8/8/PPPPPPPP/RNBQKBNR w KQkq - 0 1")
		shuffle := []string{"g1f3", "g8f6", "f3g1", "f6g8"}
		var moves []string
		r := start
		ids := []string{r.Identity()}
		for i := 0; i < 12; i++ {
			u := shuffle[i%4]
			m, _ := r.FindUci(u)
			r = r.Make(m)
			moves = append(moves, u)
			cnt := 0
			for _, id := range ids {
				if id == r.Identity() {
					cnt++
				}
			}
			ids = append(ids, r.Identity())
			check("position startpos moves "+strings.Join(moves, " "), r, cnt)
		}
	}
	run.AddEvals(cases)
	run.Count("position_commands", cases)
}

// ---- ucinewgame: a fixed-depth search afterwards equals that of a fresh engine ----

func searchOutcome(lines []string) string {
	best, info := "", ""
	for _, l := range lines {
		if strings.HasPrefix(l, "bestmove") {
			best = l
		}
		if strings.HasPrefix(l, "info depth") {
			f := strings.Fields(l)
			keep := []string{}
			for i := 0; i < len(f); i++ {
				switch f[i] {
				case "depth", "score":
					if f[i] == "score" && i+2 < len(f) {
						keep = append(keep, f[i], f[i+1], f[i+2])
					} else if i+1 < len(f) {
						keep = append(keep, f[i], f[i+1])
					}
				case "pv":
					keep = append(keep, f[i:]...)
					i = len(f)
				}
			}
			info = strings.Join(keep, " ")
		}
	}
	return best + " | " + info
}

func c12NewGame(run *vl.Run, shard, n int) {
	fens := []string{"rnbqkbnr/pppppppp/8/8/8/8/PPPPPPPP/RNBQKBNR w KQkq - 0 1", "r3k2r/p1ppqpb1/bn2pnp1/3PN3/1p2P3/2N2Q1p/PPPBBPPP/R3K2R w KQkq - 0 1",
		"8/8/8/8/8/8/Q7/K1k5 w - - 0 1", "6k1/5ppp/8/8/8/8/5PPP/3R2K1 w - - 0 1", "r1bq1rk1/pp2ppbp/2np1np1/8/3NP3/2N1BP2/PPPQ2PP/R3KB1R w KQ - 3 9", "8/1P6/6k1/8/8/8/p1K5/8 w - - 0 1"}
	job := 0
	for _, useHash := range []bool{true, false} {
		for _, later := range fens {
			fresh := ""
			for _, earlier := range append([]string{""}, fens...) {
				job++
				if job%n != shard {
					continue
				}
				var out string
				x := sched.Run(nil, func() {
					config.Settings.Search.UseBook = false
					config.Settings.Search.TTSize = 1
					config.Settings.Search.UseTT = useHash
					s := newSession()
					gos := 0
					if earlier != "" {
						s.send("position fen " + earlier)
						gos++
						s.send("go depth 3")
						s.await(gos)
						s.send("ucinewgame")
					}
					s.send("position fen " + later)
					mark := len(s.lines)
					gos++
					s.send("go depth 3")
					s.await(gos)
					out = searchOutcome(s.lines[mark:])
				}, sched.Options{MaxSteps: 2000000})
				config.Settings.Search.UseTT = true
				run.AddStates(1)
				rep := map[string]interface{}{"kind": "uci", "use_hash": useHash, "earlier": earlier, "later": later}
				if x.Verdict != "" {
					run.Violate("newgame:"+x.Verdict, x.Detail, rep)
					continue
				}
				if earlier == "" {
					fresh = out
					continue
				}
				if fresh == "" {
					// the fresh run belongs to another shard: compute it here
					x2 := sched.Run(nil, func() {
						config.Settings.Search.UseBook = false
						config.Settings.Search.TTSize = 1
						config.Settings.Search.UseTT = useHash
						s := newSession()
						s.send("position fen " + later)
						s.send("go depth 3")
						s.await(1)
						fresh = searchOutcome(s.lines)
					}, sched.Options{MaxSteps: 2000000})
					config.Settings.Search.UseTT = true
					_ = x2
				}
				if out != fresh {
					cls := "newgame-differs-from-fresh-engine"
					if !useHash {
						cls += ":hash-disabled"
					}
					rep["after_newgame"], rep["fresh"] = out, fresh
					run.Violate(cls, "after ucinewgame a depth-3 search gives "+out+" but a fresh engine gives "+fresh, rep)
				}
			}
		}
	}
}

// c12NewGameDeep: a first game of three deeper searches (killer moves, history and counter-move tables, hash table all
// filled), ucinewgame, then a depth-5 / depth-6 search of another middlegame position: same bestmove, score and pv as on
// a fresh engine.
func c12NewGameDeep(run *vl.Run, shard, n int) {
	first := []string{"position startpos moves e2e4 c7c5 g1f3 d7d6 d2d4 c5d4 f3d4 g8f6 b1c3 a7a6", "position startpos moves e2e4 c7c5 g1f3 d7d6 d2d4 c5d4 f3d4 g8f6 b1c3 a7a6 c1e3 e7e5", "position fen r3k2r/p1ppqpb1/bn2pnp1/3PN3/1p2P3/2N2Q1p/PPPBBPPP/R3K2R w KQkq - 0 1"}
	laters := append([]string{"2kr3r/ppp1qppp/2n1bn2/4p3/4P3/2NP1N2/PPP1QPPP/2KR1B1R w - - 0 10", "r1bq1rk1/pp2ppbp/2np1np1/8/3NP3/2N1BP2/PPPQ2PP/R3KB1R w KQ - 3 9"}, testdataFens(8)...)
	job := 0
	for _, useHash := range []bool{true, false} {
		for _, later := range laters {
			for _, depth := range []int{4, 5, 6} {
				job++
				if job%n != shard || run.Expired() {
					continue
				}
				session := func(withFirstGame bool) (string, *sched.Exec) {
					var out string
					x := sched.Run(nil, func() {
						config.Settings.Search.UseBook = false
						config.Settings.Search.TTSize = 1
						config.Settings.Search.UseTT = useHash
						s := newSession()
						gos := 0
						if withFirstGame {
							for _, f := range first {
								s.send(f)
								gos++
								s.send("go depth 5")
								s.await(gos)
							}
							s.send("ucinewgame")
						}
						s.send("position fen " + later)
						mark := len(s.lines)
						gos++
						s.send(fmt.Sprintf("go depth %d", depth))
						s.await(gos)
						out = searchOutcome(s.lines[mark:])
					}, sched.Options{MaxSteps: 400000000})
					config.Settings.Search.UseTT = true
					return out, x
				}
				fresh, x1 := session(false)
				after, x2 := session(true)
				run.AddStates(2)
				run.Count("deep_newgame_sessions", 1)
				rep := map[string]interface{}{"kind": "uci", "use_hash": useHash, "first_game": first, "later": later, "depth": depth}
				if x1.Verdict != "" || x2.Verdict != "" {
					run.Violate("newgame:"+x1.Verdict+x2.Verdict, x1.Detail+x2.Detail, rep)
					continue
				}
				if after != fresh {
					cls := "newgame-differs-from-fresh-engine:after-a-longer-game"
					if !useHash {
						cls += ":hash-disabled"
					}
					rep["after_newgame"], rep["fresh"] = after, fresh
					run.Violate(cls, fmt.Sprintf("after a three-search game and ucinewgame a depth-%d search gives %s but a fresh engine gives %s", depth, after, fresh), rep)
				}
			}
		}
	}
}

// c12RealSearches: sessions whose searches are not depth limited (only the clock or stop ends them), run under the
// step-cost / time-slice model so that timers fire while the search computes; default schedule plus bound 1.
func c12RealSearches(run *vl.Run) {
	defer func() { config.Settings.Search.UseTT = true }() // a script switches the hash table off (process-global)
	scripts := [][]string{
		{"position fen " + lcFens["A"], "go movetime 25", "<await>"},
		{"position fen " + lcFens["A"], "go movetime 25", "<await>", "go infinite", "<idle>", "stop", "<await>"},
		{"position fen " + lcFens["B"], "go infinite", "<idle>", "isready", "stop", "<await>"},
		{"position fen " + lcFens["C"], "go ponder wtime 200 btime 200", "<idle>", "ponderhit", "<await>"},
		{"position fen " + lcFens["C"], "go ponder wtime 200 btime 200", "<idle>", "stop", "<await>", "go movetime 25", "<await>"},
		{"position fen " + lcFens["C"], "go ponder", "<idle>", "ponderhit", "<await>"},
		{"position fen " + lcFens["C"], "go ponder depth 2", "<idle>", "ponderhit", "<await>", "go ponder nodes 500", "<idle>", "ponderhit", "<await>"},
		{"position startpos", "go wtime 150 btime 150 movestogo 10", "<await>", "position startpos moves e2e4", "go wtime 100 btime 150 movestogo 10", "<await>"},
		{"position fen " + lcFens["A"], "go searchmoves a1b1 depth 2", "<await>", "go depth 2 searchmoves a1a2 a1b2", "<await>"},
		{"position startpos", "go infinite searchmoves g1f3 b1c3", "<idle>", "stop", "<await>"},
		// searches longer than a second (virtual): the periodic search-update path, with and without hash table
		{"position startpos", "go movetime 1200", "<await>"},
		{"setoption name Use_Hash value false", "position startpos", "go movetime 1200", "<await>", "go infinite", "<idle>", "stop", "<await>"},
	}
	for _, sc := range scripts {
		sc := sc
		var sess *uciSession
		body := func() {
			config.Settings.Search.UseBook = false
			config.Settings.Search.TTSize = 1
			config.Settings.Search.UseTT = true // a script may switch it off (process-global)
			s := newSession()
			sess = s
			gos := 0
			open := ""
			for _, c := range sc {
				switch {
				case c == "<await>":
					s.await(gos)
				case c == "<idle>":
					sched.Sleep(20 * time.Millisecond)
				default:
					if strings.HasPrefix(c, "go") {
						gos++
						kind := "go-timed"
						if strings.Contains(c, "infinite") {
							kind = "go-infinite"
						}
						if strings.Contains(c, "ponder") {
							kind = "go-ponder"
						}
						open = kind
						sched.Record("go", fmt.Sprintf("%d %s best=%d", gos, kind, s.best))
					}
					if c == "stop" || c == "ponderhit" {
						sched.Record("release", fmt.Sprintf("%d best=%d", gos, s.best))
					}
					s.send(c)
				}
			}
			_ = open
			s.send("isready")
		}
		ex := &sched.Explorer{Bound: 0, Body: body, MaxExec: 2000, Opt: sched.Options{StepCost: 20 * time.Microsecond, MaxSteps: 3000000, MaxTicks: 4000}}
		ex.Check = func(x *sched.Exec) {
			run.AddTransitions(int64(x.Steps))
			rep := map[string]interface{}{"kind": "schedule", "program": strings.Join(sc, " | "), "choices": x.Choices, "events": x.EventsString()}
			for _, vd := range c12Oracle(nil, x, sess) {
				if strings.HasPrefix(vd.key, "race:") {
					continue
				}
				run.Violate("real-search:"+vd.key, vd.what, rep)
			}
			// stop ends a running search promptly (virtual time, step-cost model): bestmove within 10 ms of the stop command;
			// a searchmoves list restricts the best move
			var stopAt time.Duration = -1
			var lastGo string
			for _, e := range x.Events {
				switch {
				case e.Name == "cmd" && e.Arg == "stop":
					stopAt = e.T
				case e.Name == "cmd" && strings.HasPrefix(e.Arg, "go"):
					lastGo = e.Arg
				case e.Name == "out" && strings.HasPrefix(e.Arg, "bestmove"):
					if stopAt >= 0 && e.T-stopAt > 10*time.Millisecond {
						run.Violate("real-search:stop-not-prompt", fmt.Sprintf("bestmove %v after the stop command (virtual time)", e.T-stopAt), rep)
					}
					stopAt = -1
					if i := strings.Index(lastGo, "searchmoves"); i >= 0 {
						allowed := map[string]bool{}
						for _, t := range strings.Fields(lastGo[i:])[1:] {
							if len(t) >= 4 && t[0] >= 'a' && t[0] <= 'h' && t[1] >= '1' && t[1] <= '8' {
								allowed[t] = true
							} else {
								break
							}
						}
						bm := strings.Fields(e.Arg)[1]
						if len(allowed) > 0 && !allowed[bm] {
							run.Violate("real-search:searchmoves-ignored-via-uci", "bestmove "+bm+" is not in the searchmoves list of: "+lastGo, rep)
						}
					}
				}
			}
		}
		ex.Explore()
		run.AddStates(1)
		run.SampleCat("real-search-session", map[string]interface{}{"program": strings.Join(sc, " | "), "schedules": ex.Executions})
	}
}

// c12TerminalRoots: sessions in which a go on a mate / stalemate root (answered at once, without a move) is followed
// immediately by the next go - all schedules within deviation bound 1, as for the command programs: every go gets
// exactly one bestmove, the one after the terminal root a legal move of the new position.
func c12TerminalRoots(run *vl.Run) {
	mate, stale := "7k/6Q1/6K1/8/8/8/8/8 b - - 0 1", "7k/5Q2/6K1/8/8/8/8/8 b - - 0 1"
	var scripts [][]string
	for _, f := range []string{mate, stale} {
		scripts = append(scripts,
			[]string{"position fen " + f, "go depth 1", "<await>", "position fen " + lcFens["A"], "go depth 1", "<await>"},
			[]string{"position fen " + f, "go depth 1", "<await>", "go depth 1", "<await>", "isready"},
			[]string{"position fen " + f, "go movetime 65 depth 1", "<await>", "position fen " + lcFens["B"], "go infinite depth 1", "<idle>", "stop", "<await>"},
		)
	}
	for _, sc := range scripts {
		sc := sc
		var sess *uciSession
		body := func() {
			config.Settings.Search.UseBook = false
			config.Settings.Search.TTSize = 1
			s := newSession()
			sess = s
			gos := 0
			for _, c := range sc {
				switch {
				case c == "<await>":
					s.await(gos)
				case c == "<idle>":
					sched.Sleep(20 * time.Millisecond)
				default:
					if strings.HasPrefix(c, "go") {
						gos++
						kind := "go-timed"
						if strings.Contains(c, "infinite") {
							kind = "go-infinite"
						}
						sched.Record("go", fmt.Sprintf("%d %s best=%d", gos, kind, s.best))
					}
					if c == "stop" {
						sched.Record("release", fmt.Sprintf("%d best=%d", gos, s.best))
					}
					s.send(c)
				}
			}
			s.send("isready")
		}
		ex := &sched.Explorer{Bound: 1, Body: body, MaxExec: 50000, Deadline: run.DeadlineTime()}
		ex.Check = func(x *sched.Exec) {
			run.AddTransitions(int64(x.Steps))
			rep := map[string]interface{}{"kind": "schedule", "program": strings.Join(sc, " | "), "choices": x.Choices, "events": x.EventsString()}
			for _, vd := range c12Oracle(nil, x, sess) {
				if strings.HasPrefix(vd.key, "race:") {
					continue
				}
				key := "terminal-root:" + vd.key
				if strings.HasPrefix(vd.key, "bestmove-before-stop:leftover-timer") {
					key = vd.key // the open finding, classified by c12Oracle's window / deviation condition
				}
				run.Violate(key, vd.what, rep)
			}
		}
		ex.Explore()
		run.AddEvals(int64(ex.Executions))
		run.AddStates(1)
		if ex.Capped {
			run.Cap("terminal-root sessions capped")
		}
		run.SampleCat("terminal-root session", map[string]interface{}{"program": strings.Join(sc, " | "), "schedules": ex.Executions})
	}
}
