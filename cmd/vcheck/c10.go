package main

import (
	"fmt"
	"os"
	"sync/atomic"

	"github.com/frankkopp/FrankyGo/internal/position"

	"github.com/frankkopp/FrankyGo/verif/eng"
	"github.com/frankkopp/FrankyGo/verif/refchess"
	"github.com/frankkopp/FrankyGo/verif/vl"
)

func init() { registry["C10"] = c10 }

// history seeds: low branching so that deep complete enumeration reaches 2- and 3-fold repetitions;
// rights-carrying and double-push seeds exercise castling-rights / en-passant identity changes.
var c10Seeds = []string{
	"8/k7/3p4/p2P1p2/P2P1P2/8/8/K7 w - - 0 1",
	"8/k7/3p4/p2P1p2/P2P1P2/8/8/K7 b - - 7 10",
	"8/8/8/8/8/5k2/8/5K1N w - - 98 70",
	"7k/8/8/8/8/8/8/K6N b - - 99 70",
	"k7/8/8/8/8/8/8/K6R w - - 0 1",
	"4k3/8/8/8/8/8/8/4K2R w K - 0 1",
	"r3k3/8/8/8/8/8/8/4K2R w Kq - 0 1",
	"4k3/7p/8/8/8/8/P7/4K3 w - - 0 1",
	"k7/7p/8/6P1/8/8/8/K7 b - - 0 1",
	"k7/8/8/8/8/8/8/K1B5 w - - 0 1",
}

func c10Histories(run *vl.Run, maxNodes int64) {
	type job struct {
		fen   string
		depth int
		first int
	}
	var jobs []job
	depths := map[string]int{}
	for _, s := range c10Seeds {
		r := refchess.MustFEN(s)
		d := 1
		for d < 12 {
			if int64(r.Perft(d+1, nil)) > maxNodes {
				break
			}
			d++
		}
		depths[s] = d
		for i := range r.LegalMoves() {
			jobs = append(jobs, job{s, d, i})
		}
	}
	run.Set("history_depths", depths)
	var nodes, reps1, reps2, reps3 int64
	vl.Parallel(len(jobs), func(ji, n int) {
		j := jobs[ji]
		p, err := position.NewPositionFen(j.fen)
		if err != nil {
			run.Violate("setup-failed", err.Error(), map[string]interface{}{"fen": j.fen})
			return
		}
		r0 := refchess.MustFEN(j.fen)
		ids := []string{r0.Identity()}
		var path []string
		var ln, l1, l2, l3 int64
		var walk func(r *refchess.Pos, d int)
		check := func(r *refchess.Pos) {
			ln++
			id := ids[len(ids)-1]
			cnt := 0
			for _, x := range ids[:len(ids)-1] {
				if x == id {
					cnt++
				}
			}
			if cnt >= 1 {
				l1++
			}
			if cnt >= 2 {
				l2++
			}
			if cnt >= 3 {
				l3++
			}
			rep := map[string]interface{}{"kind": "history", "fen": j.fen, "moves": append([]string{}, path...), "earlier_occurrences": cnt}
			for k := 1; k <= 3; k++ {
				if got, want := p.CheckRepetitions(k), cnt >= k; got != want {
					cls := "repetition:false-negative"
					if got {
						cls = "repetition:false-positive"
					}
					rep["n"] = k
					run.Violate(cls, fmt.Sprintf("CheckRepetitions(%d)=%v but the position occurred %d times before", k, got, cnt), rep)
				}
			}
			if p.HalfMoveClock() != r.Half {
				run.Violate("halfmoveclock", fmt.Sprintf("HalfMoveClock()=%d but %d plies since the last capture or pawn move", p.HalfMoveClock(), r.Half), rep)
			}
		}
		walk = func(r *refchess.Pos, d int) {
			check(r)
			if d == 0 || run.Expired() {
				return
			}
			for _, m := range r.LegalMoves() {
				q := r.Make(m)
				p.DoMove(eng.EngMove(m))
				ids = append(ids, q.Identity())
				path = append(path, m.String())
				walk(q, d-1)
				path = path[:len(path)-1]
				ids = ids[:len(ids)-1]
				p.UndoMove()
			}
		}
		m := r0.LegalMoves()[j.first]
		q := r0.Make(m)
		p.DoMove(eng.EngMove(m))
		ids = append(ids, q.Identity())
		path = append(path, m.String())
		msg, pan := vl.Guard(func() { walk(q, j.depth-1) })
		if pan {
			run.Violate("panic", "panic in history walk: "+msg, map[string]interface{}{"fen": j.fen, "moves": path})
		}
		atomic.AddInt64(&nodes, ln)
		atomic.AddInt64(&reps1, l1)
		atomic.AddInt64(&reps2, l2)
		atomic.AddInt64(&reps3, l3)
		if ji%7 == 0 {
			run.SampleCat("history:"+j.fen, map[string]interface{}{"fen": j.fen, "first_move": m.String(), "depth": j.depth})
		}
	})
	run.AddStates(nodes)
	run.AddTransitions(nodes)
	run.Count("history_nodes", nodes)
	run.Count("nodes_with_1_earlier_occurrence", reps1)
	run.Count("nodes_with_2_earlier_occurrences", reps2)
	run.Count("nodes_with_3_earlier_occurrences", reps3)
}

// side material: knights, light bishops, dark bishops, queen, rook, pawn
type sideMat struct{ n, bl, bd, q, r, p int }

func (s sideMat) minors() int  { return s.n + s.bl + s.bd }
func (s sideMat) bare() bool   { return s.minors()+s.q+s.r+s.p == 0 }
func (s sideMat) heavy() bool  { return s.q+s.r+s.p > 0 }
func (s sideMat) String() string {
	return fmt.Sprintf("N%d Bl%d Bd%d Q%d R%d P%d", s.n, s.bl, s.bd, s.q, s.r, s.p)
}

func allSideMats() []sideMat {
	var l []sideMat
	for n := 0; n <= 3; n++ {
		for bl := 0; bl+n <= 3; bl++ {
			for bd := 0; bd+bl+n <= 3; bd++ {
				for q := 0; q <= 1; q++ {
					for r := 0; r <= 1; r++ {
						for p := 0; p <= 1; p++ {
							l = append(l, sideMat{n, bl, bd, q, r, p})
						}
					}
				}
			}
		}
	}
	return l
}

// required verdict for a material signature: +1 must be insufficient, -1 must not, 0 unconstrained
func requiredVerdict(w, b sideMat) int {
	if w.heavy() || b.heavy() {
		return -1
	}
	// only minor pieces from here
	switch {
	case w.bare() && b.bare():
		return 1
	case (w.bare() && b.minors() == 1) || (b.bare() && w.minors() == 1):
		return 1
	case w.n == 0 && b.n == 0 && w.minors() == 1 && b.minors() == 1 && w.bl == b.bl: // single bishops on the same colour
		return 1
	}
	for _, pr := range [][2]sideMat{{w, b}, {b, w}} {
		s, o := pr[0], pr[1]
		if !o.bare() || s.minors() != 2 {
			continue
		}
		if s.n == 1 && s.bl+s.bd == 1 { // bishop and knight
			return -1
		}
		if s.bl == 1 && s.bd == 1 { // two opposite-coloured bishops
			return -1
		}
	}
	return 0
}

var kingLayouts = [][2]int{{0, 63}, {4, 60}, {18, 45}, {7, 56}}

func placeMaterial(w, b sideMat, layout int) *refchess.Pos {
	p := &refchess.Pos{EP: -1, White: layout%2 == 0, Full: 1}
	p.B[kingLayouts[layout][0]] = refchess.King
	p.B[kingLayouts[layout][1]] = -refchess.King
	// candidate squares on ranks 2..7, rotated per layout
	var light, dark []int
	for i := 0; i < 48; i++ {
		s := 8 + (i*5+layout*11)%48
		if p.B[s] != 0 {
			continue
		}
		if refchess.SquareColor(s) == 1 {
			light = append(light, s)
		} else {
			dark = append(dark, s)
		}
	}
	take := func(l *[]int) int { s := (*l)[0]; *l = (*l)[1:]; return s }
	anyc := func() int {
		if len(light) >= len(dark) {
			return take(&light)
		}
		return take(&dark)
	}
	put := func(m sideMat, sg int8) {
		for i := 0; i < m.bl; i++ {
			p.B[take(&light)] = sg * refchess.Bishop
		}
		for i := 0; i < m.bd; i++ {
			p.B[take(&dark)] = sg * refchess.Bishop
		}
		for i := 0; i < m.n; i++ {
			p.B[anyc()] = sg * refchess.Knight
		}
		for i := 0; i < m.q; i++ {
			p.B[anyc()] = sg * refchess.Queen
		}
		for i := 0; i < m.r; i++ {
			p.B[anyc()] = sg * refchess.Rook
		}
		for i := 0; i < m.p; i++ {
			p.B[anyc()] = sg * refchess.Pawn
		}
	}
	put(w, 1)
	put(b, -1)
	return p
}

func c10Material(run *vl.Run) {
	mats := allSideMats()
	var pos, judgedT, judgedF int64
	vl.Parallel(len(mats), func(wi, n int) {
		w := mats[wi]
		for _, b := range mats {
			req := requiredVerdict(w, b)
			for layout := 0; layout < 4; layout++ {
				r := placeMaterial(w, b, layout)
				if !r.Valid() {
					r.White = !r.White // the placement has the side not to move in check: let that side move
				}
				if !r.Valid() {
					continue // both kings attacked: not a position
				}
				p, err := position.NewPositionFen(r.FEN())
				if err != nil {
					run.Violate("setup-failed", err.Error(), map[string]interface{}{"fen": r.FEN()})
					continue
				}
				atomic.AddInt64(&pos, 1)
				got := p.HasInsufficientMaterial()
				rep := map[string]interface{}{"kind": "material", "fen": r.FEN(), "white": w.String(), "black": b.String()}
				switch {
				case req == 1:
					atomic.AddInt64(&judgedT, 1)
					if !got {
						run.Violate("insufficient:missed-dead-position", "dead position not reported as insufficient material", rep)
					}
				case req == -1:
					atomic.AddInt64(&judgedF, 1)
					if got {
						cls := "insufficient:claimed-with-mating-material"
						switch {
						case w.p+b.p > 0:
							cls = "insufficient:claimed-with-pawn"
						case w.q+b.q > 0:
							cls = "insufficient:claimed-with-queen"
						case w.r+b.r > 0:
							cls = "insufficient:claimed-with-rook"
						}
						run.Violate(cls, "insufficient material reported although a pawn/rook/queen or mating material is on the board", rep)
					}
				}
				if layout == 0 && wi%40 == 0 && req != 0 {
					run.SampleCat(fmt.Sprintf("material:%d", req), rep)
				}
			}
		}
	})
	run.AddStates(pos)
	run.Count("material_positions", pos)
	run.Count("material_required_true", judgedT)
	run.Count("material_required_false", judgedF)
}

func c10(tier string, args []string) int {
	run := vl.NewRun("C10", tier)
	run.Rule("histories: every move sequence to the stated depth from low-branching seed positions (clocks 0/7/98/99, castling rights, double pushes), CheckRepetitions(1..3) and HalfMoveClock compared at every node with a reference that keeps its own list of identity tuples; material: every signature with <=3 minor pieces (bishops by square colour) and <=1 Q,R,P per side on 4 placements each, judged only for the classes the statement names")
	run.SetDeadline(budget(tier))
	maxNodes := int64(3000000)
	if tier == "thorough" {
		maxNodes = 60000000
	}
	c10Histories(run, maxNodes)
	c10Material(run)
	c10TradeDowns(run)
	return run.Finish()
}

// matOf: the material signature of one side of a reference position
func matOf(r *refchess.Pos, white bool) sideMat {
	var s sideMat
	for sq, pc := range r.B {
		if pc == 0 || (pc > 0) != white {
			continue
		}
		if pc < 0 {
			pc = -pc
		}
		switch pc {
		case refchess.Knight:
			s.n++
		case refchess.Bishop:
			if refchess.SquareColor(sq) == 1 {
				s.bl++
			} else {
				s.bd++
			}
		case refchess.Queen:
			s.q++
		case refchess.Rook:
			s.r++
		case refchess.Pawn:
			s.p++
		}
	}
	return s
}

// c10TradeDowns: the material clause over histories: scripted games that start with far more material than an original
// set (8 queens) and trade everything off on one square; at every ply the answer on the live position is judged by the
// classes of the statement and compared with a fresh position built from the current FEN.
func c10TradeDowns(run *vl.Run) {
	line := []string{"d4d5", "d6d5", "d3d5", "d7d5", "d2d5", "d8d5", "d1d5", "e6d5"}
	for _, rest := range []string{"r2", "bn1", "1n1", "q2", "2b"} { // what black keeps on a8..c8: rook / bishop+knight / knight / queen / bishop
		fen := rest + "q4/3q4/3qk3/3q4/3Q4/3Q4/3Q4/3Q2K1 w - - 0 1"
		r, err := refchess.ParseFEN(fen)
		if err != nil || !r.Valid() {
			fmt.Fprintln(os.Stderr, "c10TradeDowns: bad seed", fen)
			os.Exit(2)
		}
		p, err := position.NewPositionFen(fen)
		if err != nil {
			run.Violate("setup-failed", err.Error(), map[string]interface{}{"fen": fen})
			continue
		}
		for k := 0; k <= len(line); k++ {
			run.AddStates(1)
			run.Count("trade_down_plies", 1)
			got := p.HasInsufficientMaterial()
			rep := map[string]interface{}{"kind": "history", "fen": fen, "moves": line[:k], "position": r.FEN()}
			switch req := requiredVerdict(matOf(r, true), matOf(r, false)); {
			case req == -1 && got:
				run.Violate("insufficient:claimed-after-trade-down", "insufficient material reported although a pawn/rook/queen or mating material is on the board (position reached by exchanges from a position with 8 queens)", rep)
			case req == 1 && !got:
				run.Violate("insufficient:missed-after-trade-down", "dead position reached by exchanges not reported as insufficient material", rep)
			}
			if fp, err := position.NewPositionFen(r.FEN()); err == nil && fp.HasInsufficientMaterial() != got {
				run.Violate("insufficient:history-dependent", fmt.Sprintf("HasInsufficientMaterial()=%v on the position reached by play, %v on the same position set up from FEN", got, !got), rep)
			}
			if k == len(line) {
				break
			}
			m, ok := r.FindUci(line[k])
			if !ok {
				fmt.Fprintln(os.Stderr, "c10TradeDowns: scripted move not legal:", line[k], r.FEN())
				os.Exit(2)
			}
			p.DoMove(eng.EngMove(m))
			r = r.Make(m)
		}
	}
}
