package main

import (
	"sync"
	"time"

	"github.com/frankkopp/FrankyGo/internal/config"
	"github.com/frankkopp/FrankyGo/internal/moveslice"
	"github.com/frankkopp/FrankyGo/internal/position"
	"github.com/frankkopp/FrankyGo/internal/search"
	. "github.com/frankkopp/FrankyGo/internal/types"
	"github.com/frankkopp/FrankyGo/test/testdata"

	"github.com/frankkopp/FrankyGo/verif/eng"
	"github.com/frankkopp/FrankyGo/verif/refchess"
	"github.com/frankkopp/FrankyGo/verif/space"
)

// capDriver records what a search reports (plain builds: real goroutines, so guarded by a mutex).
type capDriver struct {
	mu      sync.Mutex
	pvs     []string // iteration PV lines
	results [][2]Move
	infos   []string
}

func (c *capDriver) SendReadyOk() {}
func (c *capDriver) SendInfoString(info string) {
	c.mu.Lock()
	c.infos = append(c.infos, info)
	c.mu.Unlock()
}
func (c *capDriver) SendIterationEndInfo(depth int, seldepth int, value Value, nodes uint64, nps uint64, t time.Duration, pv moveslice.MoveSlice) {
	c.mu.Lock()
	c.pvs = append(c.pvs, pv.StringUci())
	c.mu.Unlock()
}
func (c *capDriver) SendAspirationResearchInfo(depth int, seldepth int, value Value, bound string, nodes uint64, nps uint64, t time.Duration, pv moveslice.MoveSlice) {
}
func (c *capDriver) SendCurrentRootMove(currMove Move, moveNumber int) {}
func (c *capDriver) SendSearchUpdate(depth int, seldepth int, nodes uint64, nps uint64, t time.Duration, hashfull int) {
}
func (c *capDriver) SendCurrentLine(moveList moveslice.MoveSlice) {}
func (c *capDriver) SendResult(bestMove Move, ponderMove Move) {
	c.mu.Lock()
	c.results = append(c.results, [2]Move{bestMove, ponderMove})
	c.mu.Unlock()
}
func (c *capDriver) reset() { c.mu.Lock(); c.pvs, c.results, c.infos = nil, nil, nil; c.mu.Unlock() }

// runSearch runs one search to completion (limits must make it terminate by itself).
func runSearch(s *search.Search, p *position.Position, sl search.Limits) search.Result {
	s.StartSearch(*p, sl)
	s.WaitWhileSearching()
	return s.LastSearchResult()
}

// baseSearchConfig: quiet, no book, small TT
func baseSearchConfig() {
	config.Settings.Search.UseBook = false
	config.Settings.Search.TTSize = 1
}

// switches of the search configuration that the checks toggle, by name
var searchSwitches = map[string]*bool{
	"UseQuiescence": &config.Settings.Search.UseQuiescence, "UseQSStandpat": &config.Settings.Search.UseQSStandpat,
	"UseSEE": &config.Settings.Search.UseSEE, "UsePromNonQuiet": &config.Settings.Search.UsePromNonQuiet,
	"UsePVS": &config.Settings.Search.UsePVS, "UseIID": &config.Settings.Search.UseIID, "UseKiller": &config.Settings.Search.UseKiller,
	"UseHistoryCounter": &config.Settings.Search.UseHistoryCounter, "UseCounterMoves": &config.Settings.Search.UseCounterMoves,
	"UseTT": &config.Settings.Search.UseTT, "UseTTMove": &config.Settings.Search.UseTTMove, "UseTTValue": &config.Settings.Search.UseTTValue,
	"UseQSTT": &config.Settings.Search.UseQSTT, "UseEvalTT": &config.Settings.Search.UseEvalTT,
	"UseMDP": &config.Settings.Search.UseMDP, "UseRazoring": &config.Settings.Search.UseRazoring, "UseRFP": &config.Settings.Search.UseRFP,
	"UseNullMove": &config.Settings.Search.UseNullMove, "UseExt": &config.Settings.Search.UseExt, "UseExtAddDepth": &config.Settings.Search.UseExtAddDepth,
	"UseCheckExt": &config.Settings.Search.UseCheckExt, "UseThreatExt": &config.Settings.Search.UseThreatExt,
	"UseFP": &config.Settings.Search.UseFP, "UseQFP": &config.Settings.Search.UseQFP, "UseLmp": &config.Settings.Search.UseLmp, "UseLmr": &config.Settings.Search.UseLmr,
}

var switchNames = []string{"UseQuiescence", "UseQSStandpat", "UseSEE", "UsePromNonQuiet", "UsePVS", "UseIID", "UseKiller", "UseHistoryCounter",
	"UseCounterMoves", "UseTT", "UseTTMove", "UseTTValue", "UseQSTT", "UseEvalTT", "UseMDP", "UseRazoring", "UseRFP", "UseNullMove", "UseExt",
	"UseExtAddDepth", "UseCheckExt", "UseThreatExt", "UseFP", "UseQFP", "UseLmp", "UseLmr"}

type cfgSnapshot map[string]bool

func currentCfg() cfgSnapshot {
	c := cfgSnapshot{}
	for n, p := range searchSwitches {
		c[n] = *p
	}
	return c
}
func (c cfgSnapshot) apply() {
	for n, v := range c {
		*searchSwitches[n] = v
	}
}
func (c cfgSnapshot) with(name string, v bool) cfgSnapshot {
	d := cfgSnapshot{}
	for k, x := range c {
		d[k] = x
	}
	d[name] = v
	return d
}
func (c cfgSnapshot) diff(base cfgSnapshot) string {
	s := ""
	for _, n := range switchNames {
		if c[n] != base[n] {
			if s != "" {
				s += " "
			}
			if c[n] {
				s += "+" + n
			} else {
				s += "-" + n
			}
		}
	}
	if s == "" {
		return "default"
	}
	return s
}

// smallSearchPositions: complete named sub-families of P3 (extra piece a white queen / rook / pawn or black
// knight with the white king on a1..d1) plus hand-picked small tactical positions.
func smallSearchPositions(level int) []string {
	var res []string
	kinds := []int8{space.Q, space.P, -space.N}
	if level == 1 {
		kinds = []int8{space.Q, space.R, space.P, -space.N, -space.P, -space.R}
	}
	space.P3(0, 1, space.P3Opt{Kinds: kinds, NoEmpty: true}, func(p *refchess.Pos) {
		wk := p.KingSq(true)
		bk := p.KingSq(false)
		if wk/8 != 0 || wk%8 > 3 {
			return
		}
		if level == 0 && (wk != 0 || (bk%8)%2 != 0 || (bk/8)%2 != 0 || !p.White) {
			return // quick tier: white king a1, black king on every second file and rank, white to move
		}
		if level == 2 && (wk != 0 || (bk%8)%2 != 0) {
			return // white king a1, black king on every second file, both sides to move
		}
		res = append(res, p.FEN())
	})
	res = append(res, tacticalFens...)
	return res
}

var tacticalFens = []string{
	"6k1/5ppp/8/8/8/8/5PPP/3R2K1 w - - 0 1",        // back rank mate in 1
	"7k/5Q2/6K1/8/8/8/8/8 w - - 0 1",               // several mates in 1, stalemate traps
	"7k/8/5K2/6Q1/8/8/8/8 w - - 0 1",               // stalemate trap Qg6?
	"k7/2Q5/1K6/8/8/8/8/8 b - - 0 1",               // stalemate
	"R6k/8/6K1/8/8/8/8/8 b - - 0 1",                // checkmate
	"8/8/8/8/8/5k2/6q1/7K w - - 0 1",               // white in check, one legal move?
	"4k3/8/8/8/8/8/4P3/4K3 w - - 0 1",
	"8/P7/8/8/8/8/8/k1K5 w - - 0 1",                // promotion
	"8/8/8/8/8/1k6/p7/K7 w - - 0 1",                // stalemate-ish
	"r3k2r/8/8/8/8/8/8/R3K2R w KQkq - 0 1",         // castling
	"8/8/8/3pP3/8/8/8/k1K5 w - d6 0 1",             // en passant
	"3k4/8/3K4/8/8/8/8/6R1 w - - 0 1",              // mate in 1 (Rg8)
	"8/8/8/8/8/2k5/1q6/K7 w - - 0 1",               // mated
	"kbK5/pp6/1P6/8/8/8/8/R7 w - - 0 1",            // mate in 2
	"8/8/8/8/8/6k1/4Kppp/6RR b - - 0 1",
	"2k5/8/2K5/8/8/8/8/3R4 w - - 20 60",
	"8/1P6/6k1/8/8/8/p1K5/8 w - - 0 1",
	"8/5k2/8/8/2N2N2/2B5/2K5/8 w - - 0 1",
	"5k2/8/5K2/8/8/8/8/3R4 w - - 99 80",            // 50-move edge
	"5k2/8/5K2/8/8/8/8/3R4 w - - 98 80",
}

// stalemateTraps: a pawn on its initial rank blocked by an enemy pawn directly in front of it (the square two ahead is
// empty), its king on the back rank next to it, the enemy king at distance two: the side to move can stalemate, mate or
// release. Pawn files h, d (level 0) or all files; both colours by mirroring; the side with the free king to move.
func stalemateTraps(level int) []string {
	var res []string
	files := []int{7, 3}
	if level > 0 {
		files = []int{0, 1, 2, 3, 4, 5, 6, 7}
	}
	for _, f := range files {
		for dk := -1; dk <= 1; dk++ {
			bkf := f + dk
			if bkf < 0 || bkf > 7 {
				continue
			}
			bk := 56 + bkf
			for wk := 0; wk < 64; wk++ {
				dx, dy := wk%8-bk%8, wk/8-bk/8
				if dx < 0 {
					dx = -dx
				}
				if dy < 0 {
					dy = -dy
				}
				if (dx != 2 && dy != 2) || dx > 2 || dy > 2 {
					continue
				}
				var pos refchess.Pos
				pos.EP, pos.Full, pos.White = -1, 1, true
				pos.B[48+f], pos.B[40+f] = -refchess.Pawn, refchess.Pawn
				if pos.B[bk] != 0 || pos.B[wk] != 0 {
					continue
				}
				pos.B[bk], pos.B[wk] = -refchess.King, refchess.King
				if !pos.Valid() || len(pos.LegalMoves()) == 0 {
					continue
				}
				res = append(res, pos.FEN())
				if level > 0 || (wk+f)%2 == 0 {
					res = append(res, pos.Mirror().FEN())
				}
			}
		}
	}
	return res
}

func testdataFens(n int) []string {
	var res []string
	seen := map[string]bool{}
	for _, f := range testdata.Fens {
		r, err := refchess.ParseFEN(f + " 0 1")
		if err != nil || !r.Valid() || seen[r.Identity()] {
			continue
		}
		seen[r.Identity()] = true
		res = append(res, r.FEN())
		if len(res) >= n {
			break
		}
	}
	return res
}

// playable checks that moves is a chain of legal moves from r; returns the index of the first bad move or -1.
func playable(r *refchess.Pos, ucis []string) int {
	cur := r
	for i, u := range ucis {
		m, ok := cur.FindUci(u)
		if !ok {
			return i
		}
		cur = cur.Make(m)
	}
	return -1
}

func refLegalHas(r *refchess.Pos, m Move) bool {
	t := eng.TupleOfEng(m)
	for _, l := range r.LegalMoves() {
		if eng.TupleOfRef(l) == t {
			return true
		}
	}
	return false
}
