package main

import (
	"fmt"

	"github.com/frankkopp/FrankyGo/internal/config"
	"github.com/frankkopp/FrankyGo/internal/history"
	"github.com/frankkopp/FrankyGo/internal/movegen"
	"github.com/frankkopp/FrankyGo/internal/position"
	. "github.com/frankkopp/FrankyGo/internal/types"

	"github.com/frankkopp/FrankyGo/verif/eng"
	"github.com/frankkopp/FrankyGo/verif/refchess"
	"github.com/frankkopp/FrankyGo/verif/space"
	"github.com/frankkopp/FrankyGo/verif/vl"
)

func init() { registry["C08"] = c08 }

var modeNames = map[movegen.GenMode]string{movegen.GenAll: "all", movegen.GenNonQuiet: "nonquiet", movegen.GenQuiet: "quiet"}
var c08Modes = []movegen.GenMode{movegen.GenAll, movegen.GenNonQuiet, movegen.GenQuiet}

type c08user struct {
	mgPlain  *movegen.Movegen // never gets killers or history
	mgKiller *movegen.Movegen // killers stored, no history
	mgHist   *movegen.Movegen // history table attached
	hist     *history.History
	prom     bool
}

func newC08user() interface{} {
	u := &c08user{mgPlain: movegen.NewMoveGen(), mgKiller: movegen.NewMoveGen(), mgHist: movegen.NewMoveGen(), hist: history.NewHistory()}
	u.mgHist.SetHistoryData(u.hist)
	return u
}

func copyMoves(ms []Move) []Move { return append([]Move{}, ms...) }

func inMoves(m Move, ms []Move) bool {
	for _, x := range ms {
		if x.MoveOf() == m.MoveOf() {
			return true
		}
	}
	return false
}

// drain runs the phased generator to exhaustion (bounded) and returns the sequence.
func drain(mg *movegen.Movegen, p *position.Position, mode movegen.GenMode, evasion bool) ([]Move, bool) {
	var seq []Move
	for i := 0; i < 600; i++ {
		m := mg.GetNextMove(p, mode, evasion)
		if m == MoveNone {
			return seq, true
		}
		seq = append(seq, m)
	}
	return seq, false
}

func uciList(ms []Move) string {
	s := ""
	for i, m := range ms {
		if i > 0 {
			s += " "
		}
		s += m.StringUci()
	}
	return s
}

func c08State(w *wctx, p *position.Position, r *refchess.Pos) {
	run := w.run
	u := w.user.(*c08user)
	promTag := fmt.Sprintf("UsePromNonQuiet=%v", u.prom)
	inCheck := r.InCheck(r.White)
	refLegal := eng.TuplesOfRef(r.LegalMoves())
	refPseudo := eng.TuplesOfRef(r.PseudoMoves())
	rep := func(extra map[string]interface{}) map[string]interface{} {
		if extra == nil {
			extra = map[string]interface{}{}
		}
		extra["config"] = promTag
		return w.replayOf(r, extra)
	}
	evs := []bool{false}
	if inCheck {
		evs = []bool{false, true}
		run.Count("in_check_states", 1)
	}
	batch := map[bool]map[movegen.GenMode][]Move{}
	for _, ev := range evs {
		batch[ev] = map[movegen.GenMode][]Move{}
		for _, mode := range c08Modes {
			b := copyMoves(*u.mgPlain.GeneratePseudoLegalMoves(p, mode, ev))
			batch[ev][mode] = b
			if eng.HasDup(eng.TuplesOfMoves(b)) {
				run.Violate("batch-duplicate:"+modeNames[mode], "batch generator returns a move twice", rep(map[string]interface{}{"evasion": ev, "moves": uciList(b)}))
			}
		}
		all, nq, q := eng.TuplesOfMoves(batch[ev][movegen.GenAll]), eng.TuplesOfMoves(batch[ev][movegen.GenNonQuiet]), eng.TuplesOfMoves(batch[ev][movegen.GenQuiet])
		union := append(append([]eng.T{}, nq...), q...)
		eng.SortT(union)
		if eng.HasDup(union) {
			run.Violate("partition-overlap", "non-quiet and quiet generation overlap", rep(map[string]interface{}{"evasion": ev}))
		}
		if !eng.EqualT(union, all) {
			run.Violate("partition-union", "non-quiet + quiet generation differs from full generation",
				rep(map[string]interface{}{"evasion": ev, "all": eng.StrT(all), "nonquiet": eng.StrT(nq), "quiet": eng.StrT(q)}))
		}
	}
	// the full batch set is the rule-defined pseudo-legal set
	if all := eng.TuplesOfMoves(batch[false][movegen.GenAll]); !eng.EqualT(all, refPseudo) {
		run.Violate("batch-vs-rules:"+diffClass(all, refPseudo), "batch pseudo-legal set differs from the rules", rep(map[string]interface{}{"engine": eng.StrT(all), "rules": eng.StrT(refPseudo)}))
	}
	if inCheck {
		evAll := batch[true][movegen.GenAll]
		for _, m := range evAll {
			if !inMoves(m, batch[false][movegen.GenAll]) {
				run.Violate("evasion-not-pseudolegal", "evasion generation returns a move that is not pseudo-legal", rep(map[string]interface{}{"move": m.StringUci()}))
			}
		}
		var filtered []Move
		for _, m := range evAll {
			if p.IsLegalMove(m) {
				filtered = append(filtered, m)
			}
		}
		if got := eng.TuplesOfMoves(filtered); !eng.EqualT(got, refLegal) {
			run.Violate("evasion-omits-legal:"+diffClass(got, refLegal), "evasion generation filtered for legality differs from the legal move list",
				rep(map[string]interface{}{"engine": eng.StrT(got), "rules": eng.StrT(refLegal)}))
		}
	}
	// HasLegalMove
	var has bool
	if msg, pan := vl.Guard(func() { has = u.mgPlain.HasLegalMove(p) }); pan {
		run.Violate("haslegalmove-panic", "HasLegalMove panicked: "+msg, rep(nil))
	} else if has != (len(refLegal) > 0) {
		cls := "haslegalmove:false-positive"
		if !has {
			cls = "haslegalmove:false-negative"
		}
		run.Violate(cls, fmt.Sprintf("HasLegalMove=%v but %d legal moves exist", has, len(refLegal)), rep(nil))
	}
	if len(refLegal) == 0 {
		run.Count("terminal_states", 1)
	}
	// phased generator
	foreign := CreateMove(SqA1, SqB4, Normal, PtNone) // a1b4 is not a move of any piece
	for _, ev := range evs {
		allB := batch[ev][movegen.GenAll]
		for _, mode := range c08Modes {
			set := batch[ev][mode]
			want := eng.TuplesOfMoves(set)
			check := func(mg *movegen.Movegen, pv Move, desc string) {
				mg.ResetOnDemand()
				if pv != MoveNone {
					mg.SetPvMove(pv)
				}
				seq, ok := drain(mg, p, mode, ev)
				run.AddTransitions(int64(len(seq)))
				run.AddEvals(1)
				extra := map[string]interface{}{"mode": modeNames[mode], "evasion": ev, "pv": pv.StringUci(), "ordering": desc, "sequence": uciList(seq), "batch": uciList(set)}
				if !ok {
					run.Violate("phased-nontermination", "phased generator does not end", rep(extra))
					return
				}
				got := eng.TuplesOfMoves(seq)
				if ev {
					// evasion mode: only pseudo-legal moves of this mode, none twice, omitting only illegal ones
					full := batch[false][mode]
					pvIn := pv != MoveNone && inMoves(pv, full)
					if eng.HasDup(got) {
						run.Violate("phased-evasion-duplicate:"+modeNames[mode], "phased evasion generation returns a move twice", rep(extra))
						return
					}
					for _, m := range seq {
						if !inMoves(m, full) {
							cls := "phased-evasion-not-pseudolegal:" + modeNames[mode]
							if m.MoveOf() == pv.MoveOf() && pv == foreign {
								cls = "phased-delivers-foreign-pv"
							} else if m.MoveOf() == pv.MoveOf() && !pvIn {
								cls = "phased-delivers-pv-outside-mode:" + modeNames[mode]
							}
							run.Violate(cls, "phased evasion generation returns a move outside the pseudo-legal set of the mode", rep(extra))
							return
						}
					}
					for _, m := range full {
						if !inMoves(m, seq) && p.IsLegalMove(m) {
							extra["omitted"] = m.StringUci()
							run.Violate("phased-evasion-omits-legal:"+modeNames[mode], "phased evasion generation omits a legal move", rep(extra))
							return
						}
					}
					if pvIn && inMoves(pv, seq) && seq[0].MoveOf() != pv.MoveOf() {
						run.Violate("phased-pv-not-first:"+modeNames[mode], "PV move belongs to the set but is not delivered first", rep(extra))
					}
					return
				}
				pvIn := pv != MoveNone && inMoves(pv, set)
				if !eng.EqualT(got, want) {
					cls := "phased-set:" + modeNames[mode]
					switch {
					case pv != MoveNone && !pvIn && inMoves(pv, seq) && pv == foreign:
						cls = "phased-delivers-foreign-pv"
					case pv != MoveNone && !pvIn && inMoves(pv, seq):
						cls = "phased-delivers-pv-outside-mode:" + modeNames[mode]
					case eng.HasDup(got):
						cls = "phased-duplicate:" + modeNames[mode]
					}
					if pvIn {
						cls += ":pv-in-set"
					}
					run.Violate(cls, "phased generator sequence is not a permutation of the batch set", rep(extra))
					return
				}
				if pvIn && (len(seq) == 0 || seq[0].MoveOf() != pv.MoveOf()) {
					run.Violate("phased-pv-not-first:"+modeNames[mode], "PV move belongs to the set but is not delivered first", rep(extra))
				}
			}
			// PV variations, no killers, no history
			check(u.mgPlain, MoveNone, "none")
			for i, pv := range set {
				if run.Tier != "thorough" && mode != movegen.GenAll && i != 0 && i != len(set)-1 {
					continue // quick tier: partial modes with first and last move as PV only
				}
				check(u.mgPlain, pv, "pv only")
			}
			check(u.mgPlain, foreign, "foreign pv")
			if mode != movegen.GenAll {
				// PV moves of the other partition: belong to the position but not to this mode's set
				for _, pv := range allB {
					if !inMoves(pv, set) {
						check(u.mgPlain, pv, "pv from other partition")
						break
					}
				}
			}
			// killer variations (quick tier: in full-generation mode only)
			for _, k := range allB {
				if run.Tier != "thorough" && mode != movegen.GenAll {
					break
				}
				u.mgKiller.StoreKiller(k)
				check(u.mgKiller, MoveNone, "killers "+u.mgKiller.KillerMoves()[0].StringUci()+","+u.mgKiller.KillerMoves()[1].StringUci())
			}
			if len(set) > 0 {
				u.mgKiller.StoreKiller(foreign)
				check(u.mgKiller, set[len(set)-1], "foreign killer + pv=last")
				// history: zero table, then a table that promotes the last quiet move and a counter move
				check(u.mgHist, set[0], "zero history + pv=first")
				last := allB[len(allB)-1]
				us := p.NextPlayer()
				u.hist.HistoryCount[us][last.From()][last.To()] = 500000
				lm := p.LastMove()
				u.hist.CounterMoves[lm.From()][lm.To()] = set[0].MoveOf()
				check(u.mgHist, MoveNone, "history promotes "+last.StringUci())
				check(u.mgHist, set[len(set)-1], "history promotes "+last.StringUci()+" + pv=last")
				u.hist.HistoryCount[us][last.From()][last.To()] = 0
				u.hist.CounterMoves[lm.From()][lm.To()] = MoveNone
			}
		}
	}
}

// c08Histories: explicit enumeration of generator-reuse histories on pairs of positions.
// ops: n1/n3 = take 1/3 moves on A or B, full = drain, reset, setpv(first of that position).
func c08Histories(run *vl.Run, depth int) {
	pairs := [][2]string{
		{"r3k2r/p1ppqpb1/bn2pnp1/3PN3/1p2P3/2N2Q1p/PPPBBPPP/R3K2R w KQkq - 0 1", "rnbqkbnr/pppppppp/8/8/8/8/PPPPPPPP/RNBQKBNR w KQkq - 0 1"},
		{"8/8/8/1k1pP3/8/8/8/4K2R w K d6 0 2", "8/8/8/1k1pP3/8/8/8/4K2R w K - 0 2"},
		{"4k3/8/8/8/7q/8/3PPPP1/3QKB2 w - - 0 1", "n1n5/PPPk4/8/8/8/8/4Kppp/5N1N b - - 0 1"},
		{"r3k2r/8/8/8/8/8/8/R3K2R w KQkq - 0 1", "r3k2r/8/8/8/8/8/8/R3K2R b KQkq - 0 1"},
		{"4r2k/8/8/8/8/8/3B4/4K3 w - - 0 1", "7k/8/8/8/8/5n2/3B4/4K3 w - - 0 1"}, // both in check: slider with interposition squares / knight
	}
	type op struct {
		name string
		pos  int // 0 = A, 1 = B, -1 none
		n    int // moves to take; 0 = drain
	}
	ops := []op{{"A:next1", 0, 1}, {"A:next3", 0, 3}, {"B:next1", 1, 1}, {"B:next3", 1, 3}, {"A:drain", 0, 0}, {"B:drain", 1, 0}, {"reset", -1, -1}, {"A:setpv", 0, -2}, {"B:setpv", 1, -2},
		{"A:batch", 0, -3}, {"B:batch", 1, -3}} // batch generation by the same instance (evasion mode when in check)
	var seqs [][]int
	var gen func(cur []int)
	gen = func(cur []int) {
		if len(cur) > 0 {
			seqs = append(seqs, append([]int{}, cur...))
		}
		if len(cur) == depth {
			return
		}
		for i := range ops {
			gen(append(cur, i))
		}
	}
	gen(nil)
	run.Set("generator_history_sequences", len(seqs)*len(pairs))
	run.Set("generator_history_depth", depth)
	vl.Parallel(len(pairs), func(pi, n int) {
		pos := [2]*position.Position{}
		sets := [2][]eng.T{}
		first := [2]Move{}
		ref := movegen.NewMoveGen()
		for i := 0; i < 2; i++ {
			pos[i], _ = position.NewPositionFen(pairs[pi][i])
			b := copyMoves(*ref.GeneratePseudoLegalMoves(pos[i], movegen.GenAll, pos[i].HasCheck()))
			sets[i] = eng.TuplesOfMoves(b)
			first[i] = b[len(b)/2]
		}
		for _, sq := range seqs {
			mg := movegen.NewMoveGen()
			// model: which position the generator is iterating, what it has returned for it, whether it is exhausted
			cur := -1
			var got []Move
			exhausted := false
			interrupted := false
			pv := MoveNone
			var names []string
			bad := ""
			for _, oi := range sq {
				o := ops[oi]
				names = append(names, o.name)
				switch {
				case o.n == -1:
					mg.ResetOnDemand()
					cur, got, exhausted, pv = -1, nil, false, MoveNone
					interrupted = false
				case o.n == -3:
					// the batch generator of the same instance in between: its own result must be right, and it must not
					// disturb a phased iteration that is resumed afterwards only after a reset (documented use)
					var bm []Move
					if msg, pan := vl.Guard(func() {
						bm = copyMoves(*mg.GeneratePseudoLegalMoves(pos[o.pos], movegen.GenAll, pos[o.pos].HasCheck()))
					}); pan {
						bad = "panic:" + panicKind(msg)
						break
					}
					if !eng.EqualT(eng.TuplesOfMoves(bm), sets[o.pos]) {
						bad = "batch-differs-after-history"
						got = bm
					}
					if cur == o.pos && len(got) > 0 && !exhausted {
						bad = "skip" // batch generation in the middle of a phased iteration of the same position: not a documented use
					}
					// a phased iteration that was under way shares the evasion targets with the batch generator: resuming it
					// after a batch generation is not a documented use (the search never does it) - such sequences are skipped
					if cur >= 0 && len(got) > 0 && !exhausted {
						interrupted = true
					}
				case o.n == -2:
					if cur >= 0 && len(got) > 0 && !exhausted {
						// changing the PV in the middle of an iteration (of either position) is not a documented use: skip sequence
						bad = "skip"
					}
					mg.SetPvMove(first[o.pos])
					pv = first[o.pos]
				default:
					if cur == o.pos && exhausted {
						bad = "skip" // reuse on the same position without reset: excluded by the documentation
						break
					}
					if cur == o.pos && interrupted {
						bad = "skip" // phased iteration resumed after a batch generation by the same instance
						break
					}
					interrupted = false
					if cur != o.pos {
						cur, got, exhausted = o.pos, nil, false
					}
					k := o.n
					if k == 0 {
						k = 600
					}
					for j := 0; j < k; j++ {
						var m Move
						if msg, pan := vl.Guard(func() { m = mg.GetNextMove(pos[o.pos], movegen.GenAll, pos[o.pos].HasCheck()) }); pan {
							bad = "panic:" + panicKind(msg)
							break
						}
						run.AddTransitions(1)
						if m == MoveNone {
							exhausted = true
							break
						}
						if len(got) == 0 && pv != MoveNone && m.MoveOf() != pv.MoveOf() && hasT(sets[o.pos], eng.TupleOfEng(pv)) {
							bad = "pv-not-first"
						}
						got = append(got, m)
					}
					if exhausted {
						if !eng.EqualT(eng.TuplesOfMoves(got), sets[o.pos]) {
							bad = "not-a-permutation"
							if pv != MoveNone && !hasT(sets[o.pos], eng.TupleOfEng(pv)) && inMoves(pv, got) {
								bad = "foreign-pv"
							}
						}
					} else if eng.HasDup(eng.TuplesOfMoves(got)) {
						bad = "duplicate"
					}
				}
				if bad != "" {
					break
				}
			}
			run.AddEvals(1)
			if bad == "foreign-pv" {
				run.Violate("phased-delivers-foreign-pv", "a PV move left over from another position is delivered as a move of this position",
					map[string]interface{}{"kind": "ops", "positions": pairs[pi], "ops": names, "sequence": uciList(got)})
			} else if bad != "" && bad != "skip" {
				run.Violate("generator-reuse:"+bad, "generator reused across positions yields a wrong sequence",
					map[string]interface{}{"kind": "ops", "positions": pairs[pi], "ops": names, "sequence": uciList(got)})
			}
		}
		run.SampleCat("generator-history", map[string]interface{}{"positions": pairs[pi], "example_ops": []string{"A:next3", "B:next1", "A:drain"}})
	})
}

func c08(tier string, args []string) int {
	run := vl.NewRun("C08", tier)
	run.Rule("every state of the families/trees x {UsePromNonQuiet on, off}: batch sets of the three modes (evasion on/off) partition; phased generator drained for every PV in the set (+none, +foreign, +other partition), every killer, history tables; HasLegalMove vs legal list; generator-reuse histories over two positions to the stated depth")
	refSelfTest(run)
	run.SetDeadline(budget(tier))
	depth, seeds, hdepth := 2, quickSeeds(), 3
	fams := []family{
		famP3(space.P3Opt{Quadrant: true}, "P3(extra piece in a1-d4)"),
		famPPromoAD(),
		famPEP([]int8{}, true, "PEP(kings+pawns, second capturer)"),
		famPPromo2(false),
		famPBlock(),
		famPPromoOwn(2, "PPROMO(own piece on the push/capture squares, files a-b)"),
	}
	if tier == "thorough" {
		depth, seeds, hdepth = 3, space.AllSeeds(), 4
		fams = []family{famP3(space.P3Opt{}, "P3"), famPPromo(), famPEP([]int8{space.R}, true, "PEP(extra=rook, second capturer)"), famPCastle(0), famPPromo2(true), famPBlock(), famPPromoOwn(8, "PPROMO(own piece on the push/capture squares)")}
	}
	saved := config.Settings.Search.UsePromNonQuiet
	for _, prom := range []bool{true, false} {
		config.Settings.Search.UsePromNonQuiet = prom
		nu := func() interface{} { u := newC08user().(*c08user); u.prom = prom; return u }
		f := fams
		if tier != "thorough" && !prom {
			f = []family{famPPromoAD(), famPPromo2(false), famPPromoOwn(2, "PPROMO(own piece on the push/capture squares, files a-b)")} // the switch only concerns promotions
		}
		runFamilies(run, f, nu, c08State)
		runTree(run, seeds, depth, nu, c08State)
	}
	config.Settings.Search.UsePromNonQuiet = saved
	c08Histories(run, hdepth)
	return run.Finish()
}

func hasT(ts []eng.T, t eng.T) bool {
	for _, x := range ts {
		if x == t {
			return true
		}
	}
	return false
}
