package main

import (
	"fmt"
	"strings"

	"github.com/frankkopp/FrankyGo/internal/position"
	"github.com/frankkopp/FrankyGo/internal/search"
	. "github.com/frankkopp/FrankyGo/internal/types"

	"github.com/frankkopp/FrankyGo/verif/refchess"
	"github.com/frankkopp/FrankyGo/verif/space"
	"github.com/frankkopp/FrankyGo/verif/vl"
)

func init() { registry["C05"] = c05 }

// c05Oracle checks one finished search. history describes earlier searches on the same Search instance.
func c05Oracle(run *vl.Run, r *refchess.Pos, fen string, before snap, pAfter *position.Position, res search.Result, drv *capDriver, desc map[string]interface{}) {
	rep := func(extra map[string]interface{}) map[string]interface{} {
		m := map[string]interface{}{"kind": "search", "fen": fen}
		for k, v := range desc {
			m[k] = v
		}
		for k, v := range extra {
			m[k] = v
		}
		return m
	}
	// position handed to the search unchanged
	if d := snapDiffs(before, takeSnap(pAfter, nil)); len(d) > 0 {
		run.Violate("caller-position-changed:"+d[0], "the position handed to StartSearch was modified: "+d[0], rep(nil))
	}
	best := res.BestMove
	if best == MoveNone {
		cls := "no-bestmove"
		if caseRootIsDrawn(fen) {
			cls = "no-bestmove:root-drawn-by-repetition-or-50-moves"
		}
		run.Violate(cls, "search of a position with legal moves returned no best move", rep(nil))
		return
	}
	bm, ok := r.FindUci(best.StringUci())
	if !ok || !refLegalHas(r, best) {
		run.Violate("bestmove-illegal", "best move "+best.StringUci()+" is not legal in the searched position", rep(nil))
		return
	}
	after := r.Make(bm)
	if res.PonderMove != MoveNone {
		if !refLegalHas(after, res.PonderMove.MoveOf()) {
			cls := "pondermove-illegal"
			run.Violate(cls, "ponder move "+res.PonderMove.StringUci()+" is not legal after best move "+best.StringUci(), rep(map[string]interface{}{"bestmove": best.StringUci(), "ponder": res.PonderMove.StringUci(), "pv": res.Pv.StringUci()}))
		}
	}
	checkPv := func(pv string, where string) {
		if pv == "" {
			return
		}
		ucis := strings.Fields(pv)
		if where == "result" && strings.ToLower(ucis[0]) != strings.ToLower(best.StringUci()) {
			run.Violate("pv-not-starting-with-bestmove", "PV "+pv+" does not start with best move "+best.StringUci(), rep(map[string]interface{}{"pv": pv}))
			return
		}
		if i := playable(r, ucis); i >= 0 {
			cls := fmt.Sprintf("pv-unplayable:%s", where)
			run.Violate(cls, fmt.Sprintf("PV %q is not a playable sequence: move %d (%s) is not legal", pv, i+1, ucis[i]), rep(map[string]interface{}{"pv": pv, "bad_index": i}))
		}
	}
	checkPv(res.Pv.StringUci(), "result")
	drv.mu.Lock()
	pvs := append([]string{}, drv.pvs...)
	nres := len(drv.results)
	drv.mu.Unlock()
	for _, pv := range pvs {
		checkPv(pv, "iteration")
	}
	if nres != 1 {
		run.Violate("result-count", fmt.Sprintf("%d results sent for one search", nres), rep(nil))
	}
}

type c05Limit struct {
	name string
	sl   search.Limits
}

func c05(tier string, args []string) int {
	run := vl.NewRun("C05", tier)
	run.Rule("positions (complete small k-man sub-families, tactical list, repository test positions) x limits (depth 1..D, every node limit 1..N) x configurations (default, all switches off, each single switch flipped from both) x histories (fresh Search; same Search after searching a different / the same position): best move legal, ponder move legal after it, every iteration PV and the final PV playable and starting with the best move, caller's position unchanged. One configuration at a time per worker process")
	refSelfTest(run)
	baseSearchConfig()
	def := currentCfg()
	allOff := cfgSnapshot{}
	for n := range def {
		allOff[n] = false
	}
	cfgs := []cfgSnapshot{def, allOff}
	for _, n := range switchNames {
		cfgs = append(cfgs, def.with(n, !def[n]))
	}
	maxDepth, maxNodes, nTest := 2, 12, 30
	small := smallSearchPositions(0)
	if tier == "thorough" {
		maxDepth, maxNodes, nTest = 4, 64, 400
		small = smallSearchPositions(1)
		for _, n := range switchNames {
			cfgs = append(cfgs, allOff.with(n, true))
		}
	}
	shard, n, worker := vl.WorkerShard()
	if !worker {
		run.Set("configurations", len(cfgs))
		return run.RunWorkers(len(cfgs) * 2)
	}
	run.SetDeadline(budget(tier))
	// one goroutine per worker process: a panic in a search goroutine kills the process and is attributed to the
	// journalled case by the parent
	vl.SetWorkers(1)
	sub := shard / len(cfgs)
	cfg := cfgs[shard%len(cfgs)]
	cfg.apply()
	cfgName := cfg.diff(def)
	_ = n
	var fens []string
	mid := testdataFens(nTest)
	if cfg["UseQuiescence"] && !cfg["UseQSStandpat"] {
		mid = nil // quiescence without stand-pat explodes on middlegame positions: small positions only
		run.Set("note_no_standpat", "configuration without stand-pat (quiescence follows checking sequences to ply 128, ~10 ms per search) searched on every 12th small position only")
		var few []string
		for i, f := range small {
			if i%12 == 0 {
				few = append(few, f)
			}
		}
		small = few
	}
	drawStep := 24
	if tier == "thorough" {
		drawStep = 4
	}
	// the draw rules inside and at the root of the tree: clocks 97..101, shuffle histories (root = second or third occurrence)
	for i, f := range append(append([]string{}, small...), mid...) {
		if tier != "thorough" && i < len(small) && i%2 != 0 {
			continue // quick tier: every second small position
		}
		r, _, err := caseRef(f)
		if err == nil && len(r.LegalMoves()) > 0 {
			fens = append(fens, f)
		}
	}
	fens = append(fens, stalemateTraps(0)...)
	fens = append(fens, space.EpEvasionRoots([]int8{space.R}, 2)...)
	for _, f := range drawCases(append([]string{}, fens...), drawStep, true) {
		if r, _, err := caseRef(f); err == nil && len(r.LegalMoves()) > 0 {
			fens = append(fens, f)
		}
	}
	var limits []c05Limit
	for d := 1; d <= maxDepth; d++ {
		if cfg["UseQuiescence"] && !cfg["UseQSStandpat"] {
			// without stand-pat the quiescence search follows checking sequences to ply 128: depth limits are
			// combined with a node limit so that every search of this configuration still ends quickly
			limits = append(limits, c05Limit{fmt.Sprintf("depth %d nodes 2000", d), search.Limits{Depth: d, Nodes: 2000}})
			continue
		}
		limits = append(limits, c05Limit{fmt.Sprintf("depth %d", d), search.Limits{Depth: d}})
	}
	for nn := 1; nn <= maxNodes; nn++ {
		limits = append(limits, c05Limit{fmt.Sprintf("nodes %d", nn), search.Limits{Nodes: uint64(nn)}})
	}
	otherFen := "r3k2r/p1ppqpb1/bn2pnp1/3PN3/1p2P3/2N2Q1p/PPPBBPPP/R3K2R w KQkq - 0 1"
	vl.Parallel(len(fens), func(fi, _ int) {
		fen := fens[fi]
		if run.Expired() || fi%2 != sub {
			return
		}
		root := fen
		drv := &capDriver{}
		// histories: 0 fresh Search per search; 1 one Search reused over all limits after a search of another position;
		// 2 game continuation: one Search reused after a depth-2 search of the position one ply earlier (the hash table
		// then holds an entry with a move for the root itself and for its successors), searching the position after
		// that search's best move
		for hist := 0; hist < 3; hist++ {
			if hist > 0 && tier != "thorough" && fi%3 != 0 {
				continue // quick tier: the reused-instance histories on every third position
			}
			var reused *search.Search
			fen := root
			if hist == 1 {
				reused = search.NewSearch()
				reused.SetUciHandler(drv)
				op, _ := position.NewPositionFen(otherFen)
				runSearch(reused, op, search.Limits{Depth: 2})
			}
			if hist == 2 {
				reused = search.NewSearch()
				reused.SetUciHandler(drv)
				var first search.Result
				if _, pan := vl.Guard(func() { first = runSearch(reused, casePos(root), search.Limits{Depth: 2, Nodes: 4000}) }); pan || first.BestMove == MoveNone {
					continue
				}
				fen = caseAppend(root, first.BestMove.StringUci())
				if nr, _, err := caseRef(fen); err != nil || len(nr.LegalMoves()) == 0 {
					continue
				}
			}
			r := mustCaseRef(fen)
			for _, lim := range limits {
				if hist >= 1 && strings.HasPrefix(lim.name, "nodes") && lim.sl.Nodes%4 != 0 {
					continue
				}
				s := reused
				if s == nil {
					s = search.NewSearch()
					s.SetUciHandler(drv)
				}
				p := casePos(fen)
				before := takeSnap(p, nil)
				drv.reset()
				var res search.Result
				if vl.Workers() == 1 {
					vl.Journal(map[string]interface{}{"fen": fen, "limit": lim.name, "config": cfgName})
				}
				msg, pan := vl.Guard(func() { res = runSearch(s, p, lim.sl) })
				run.AddEvals(1)
				run.AddStates(1)
				desc := map[string]interface{}{"limit": lim.name, "config": cfgName, "history": []string{"fresh Search", "Search reused after other searches", "Search reused after a depth-2 search of the position one ply earlier"}[hist]}
				if pan {
					run.Violate("search-panic", "search panicked: "+msg, map[string]interface{}{"kind": "search", "fen": fen, "limit": lim.name, "config": cfgName})
					reused = nil
					continue
				}
				run.AddTransitions(int64(s.NodesVisited()))
				if hist == 2 {
					desc["searched_before"] = root
				}
				c05Oracle(run, r, fen, before, p, res, drv, desc)
				if fi%40 == 0 && lim.name == "depth 1" && hist == 0 {
					run.SampleCat("search", map[string]interface{}{"fen": fen, "limit": lim.name, "config": cfgName, "bestmove": res.BestMove.StringUci(), "pv": res.Pv.StringUci()})
				}
			}
		}
	})
	run.Set("positions_per_config", len(fens))
	return run.FinishWorker()
}
