package main

import (
	"fmt"
	"hash/fnv"
	"os"
	"sync"
	"sync/atomic"

	"github.com/frankkopp/FrankyGo/internal/movegen"
	"github.com/frankkopp/FrankyGo/internal/position"
	. "github.com/frankkopp/FrankyGo/internal/types"

	"github.com/frankkopp/FrankyGo/verif/eng"
	"github.com/frankkopp/FrankyGo/verif/refchess"
	"github.com/frankkopp/FrankyGo/verif/space"
	"github.com/frankkopp/FrankyGo/verif/vl"
)

// wctx is per-worker scratch state.
type wctx struct {
	run  *vl.Run
	mg   *movegen.Movegen
	mg2  *movegen.Movegen
	fam  string
	path []string // moves from the seed (TREE) for replay
	seed string
	user interface{}
	// clampSeen: a promotion pushed the raw game-phase sum above 24 on this live position (known
	// phase-clamp defect): from then on its game phase may have drifted
	clampSeen bool
}

// replayOf describes the current state for a replay artefact.
func (w *wctx) replayOf(r *refchess.Pos, extra map[string]interface{}) map[string]interface{} {
	m := map[string]interface{}{"kind": "position", "family": w.fam, "fen": r.FEN()}
	if w.seed != "" {
		m["seed_fen"] = w.seed
		m["moves"] = append([]string{}, w.path...)
	}
	for k, v := range extra {
		m[k] = v
	}
	return m
}

type stateFn func(w *wctx, p *position.Position, r *refchess.Pos)

type family struct {
	name   string
	shards int
	enum   func(shard, n int, emit space.Emit)
}

func famP3(opt space.P3Opt, name string) family {
	return family{name, 64, func(s, n int, e space.Emit) { space.P3(s, n, opt, e) }}
}
func famPCastle(level int) family {
	return family{fmt.Sprintf("PCASTLE(level %d)", level), 64, func(s, n int, e space.Emit) { space.PCastle(s, n, level, e) }}
}
func famPEP(kinds []int8, second bool, name string) family {
	return family{name, 64, func(s, n int, e space.Emit) { space.PEP(s, n, kinds, second, e) }}
}
func famPEPOwn(kinds []int8, name string) family {
	return family{name, 64, func(s, n int, e space.Emit) { space.PEPOwn(s, n, kinds, e) }}
}
func famPPromoOwn(files int, name string) family {
	return family{name, 64, func(s, n int, e space.Emit) { space.PPromoOwn(s, n, files, e) }}
}
func famPPromo() family {
	return family{"PPROMO", 64, func(s, n int, e space.Emit) { space.PPromo(s, n, e) }}
}
func famPPromoAD() family {
	return family{"PPROMO(pawn on files a-d)", 64, func(s, n int, e space.Emit) { space.PPromoFiles(s, n, 4, e) }}
}
func famPPromo2(all bool) family {
	if all {
		ks := make([]int, 64)
		for i := range ks {
			ks[i] = i
		}
		return family{"PPROMO2(own king anywhere)", 64, func(s, n int, e space.Emit) { space.PPromo2(s, n, ks, e) }}
	}
	return family{"PPROMO2(own king in a corner)", 64, func(s, n int, e space.Emit) { space.PPromo2(s, n, []int{0, 7, 56, 63}, e) }}
}
func famPBlock() family {
	return family{"PBLOCK", 6, func(s, n int, e space.Emit) { space.PBlock(s, n, e) }}
}
func famPDisc() family {
	return family{"PDISC", 64, func(s, n int, e space.Emit) { space.PDisc(s, n, e) }}
}

// runFamilies visits every position of every family (engine position built from the FEN).
func runFamilies(run *vl.Run, fams []family, newUser func() interface{}, fn stateFn) {
	famCounts := map[string]int64{}
	var mu sync.Mutex
	for _, f := range fams {
		f := f
		var cnt int64
		vl.Parallel(f.shards, func(shard, n int) {
			w := &wctx{run: run, mg: movegen.NewMoveGen(), mg2: movegen.NewMoveGen(), fam: f.name}
			if newUser != nil {
				w.user = newUser()
			}
			var local int64
			f.enum(shard, n, func(r *refchess.Pos) {
				if run.Expired() {
					return
				}
				fen := r.FEN()
				var p *position.Position
				msg, pan := vl.Guard(func() {
					var err error
					p, err = position.NewPositionFen(fen)
					if err != nil {
						panic("NewPositionFen error: " + err.Error())
					}
				})
				if pan {
					run.Violate("setup-failed", "engine cannot set up a legal position: "+msg, w.replayOf(r, nil))
					return
				}
				local++
				w.clampSeen = false
				if local%50000 == 1 {
					run.SampleCat(f.name, map[string]interface{}{"family": f.name, "fen": fen})
				}
				msg, pan = vl.Guard(func() { fn(w, p, r) })
				if pan {
					run.Violate("panic:"+firstWords(msg), "panic while checking state: "+msg, w.replayOf(r, nil))
				}
			})
			atomic.AddInt64(&cnt, local)
		})
		mu.Lock()
		famCounts[f.name] = cnt
		mu.Unlock()
		run.AddStates(cnt)
	}
	run.Set("families", famCounts)
}

func firstWords(s string) string {
	if len(s) > 60 {
		s = s[:60]
	}
	return s
}

// distinct is a bounded concurrent set of 64-bit hashes used to count distinct tree states.
type distinct struct {
	mu   [64]sync.Mutex
	m    [64]map[uint64]struct{}
	cap  int
	full int32
}

func newDistinct(capPerShard int) *distinct {
	d := &distinct{cap: capPerShard}
	for i := range d.m {
		d.m[i] = map[uint64]struct{}{}
	}
	return d
}
func (d *distinct) add(s string) {
	h := fnv.New64a()
	h.Write([]byte(s))
	v := h.Sum64()
	i := v & 63
	d.mu[i].Lock()
	if len(d.m[i]) < d.cap {
		d.m[i][v] = struct{}{}
	} else {
		atomic.StoreInt32(&d.full, 1)
	}
	d.mu[i].Unlock()
}
func (d *distinct) count() int64 {
	var n int64
	for i := range d.m {
		n += int64(len(d.m[i]))
	}
	return n
}

// runTree walks every move sequence of length <= depth from every seed on ONE live engine position
// per shard (do/undo), with the refchess position computed in parallel. fn is called at every node
// (including the root). Moves are driven by refchess' legal move list.
func runTree(run *vl.Run, seeds []string, depth int, newUser func() interface{}, fn stateFn, post ...stateFn) {
	type job struct {
		seed string
		first int // index of first move, -1 = root only
	}
	var jobs []job
	for _, s := range seeds {
		r := refchess.MustFEN(s)
		if !r.Valid() {
			fmt.Fprintln(os.Stderr, "harness error: seed is not a legal position:", s)
			os.Exit(2)
		}
		jobs = append(jobs, job{s, -1})
		if depth >= 1 {
			for i := range r.LegalMoves() {
				jobs = append(jobs, job{s, i})
			}
		}
	}
	dist := newDistinct(200000)
	var nodes, trans int64
	vl.Parallel(len(jobs), func(shard, n int) {
		j := jobs[shard]
		w := &wctx{run: run, mg: movegen.NewMoveGen(), mg2: movegen.NewMoveGen(), fam: fmt.Sprintf("TREE(%d)", depth), seed: j.seed}
		if newUser != nil {
			w.user = newUser()
		}
		p, err := position.NewPositionFen(j.seed)
		if err != nil {
			run.Violate("setup-failed", "seed rejected: "+err.Error(), map[string]interface{}{"fen": j.seed})
			return
		}
		r := refchess.MustFEN(j.seed)
		var ln, lt int64
		var walk func(r *refchess.Pos, d int)
		walk = func(r *refchess.Pos, d int) {
			if run.Expired() {
				return
			}
			ln++
			dist.add(r.Identity())
			msg, pan := vl.Guard(func() { fn(w, p, r) })
			if pan {
				run.Violate("panic:"+firstWords(msg), "panic while checking state: "+msg, w.replayOf(r, nil))
				return
			}
			if d > 0 {
				for _, m := range r.LegalMoves() {
					em := eng.EngMove(m)
					lt++
					w.path = append(w.path, m.String())
					if isClampEvent(p, em) {
						w.clampSeen = true
					}
					p.DoMove(em)
					walk(r.Make(m), d-1)
					p.UndoMove()
					w.path = w.path[:len(w.path)-1]
				}
			}
			for _, pf := range post {
				msg, pan := vl.Guard(func() { pf(w, p, r) })
				if pan {
					run.Violate("panic:"+firstWords(msg), "panic while checking state: "+msg, w.replayOf(r, nil))
				}
			}
		}
		if j.first < 0 {
			walk(r, 0)
			if ln > 0 {
				run.SampleCat(w.fam, map[string]interface{}{"family": w.fam, "seed_fen": j.seed})
			}
		} else {
			m := r.LegalMoves()[j.first]
			w.path = append(w.path, m.String())
			run.SampleCat(w.fam+"/moves", map[string]interface{}{"family": w.fam, "seed_fen": j.seed, "first_move": m.String()})
			msg, pan := vl.Guard(func() {
				if isClampEvent(p, eng.EngMove(m)) {
					w.clampSeen = true
				}
				p.DoMove(eng.EngMove(m))
				lt++
				walk(r.Make(m), depth-1)
				p.UndoMove()
			})
			if pan {
				run.Violate("panic:"+firstWords(msg), "panic in tree walk: "+msg, w.replayOf(r, nil))
			}
		}
		atomic.AddInt64(&nodes, ln)
		atomic.AddInt64(&trans, lt)
	})
	run.AddStates(nodes)
	run.AddTransitions(trans)
	run.Set("tree_nodes", nodes)
	run.Set("tree_depth", depth)
	run.Set("tree_seeds", len(seeds))
	run.Set("tree_distinct_identities", dist.count())
	if dist.full != 0 {
		run.Set("tree_distinct_note", "distinct counter saturated (bounded set); count is a lower bound")
	}
}

// engine move lookup by tuple among the engine's own legal moves
func findEngMove(ms []Move, t eng.T) (Move, bool) {
	for _, m := range ms {
		if eng.TupleOfEng(m) == t {
			return m, true
		}
	}
	return MoveNone, false
}
