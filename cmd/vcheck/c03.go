package main

import (
	"fmt"

	"github.com/frankkopp/FrankyGo/internal/evaluator"
	"github.com/frankkopp/FrankyGo/internal/movegen"
	"github.com/frankkopp/FrankyGo/internal/position"
	. "github.com/frankkopp/FrankyGo/internal/types"

	"github.com/frankkopp/FrankyGo/verif/eng"
	"github.com/frankkopp/FrankyGo/verif/refchess"
	"github.com/frankkopp/FrankyGo/verif/space"
	"github.com/frankkopp/FrankyGo/verif/vl"
)

func init() { registry["C03"] = c03 }

// snap is every public observable of a position (comparable value).
type snap struct {
	fen                        string
	key                        position.Key
	pieces                     [2][7]Bitboard
	occ                        [2]Bitboard
	occAll                     Bitboard
	king                       [2]Square
	material, nonPawn          [2]Value
	psqMid, psqEnd             [2]Value
	phase                      int
	phaseFactor                float64
	hasCheck                   bool
	lastMove                   Move
	lastCaptured               Piece
	wasCapturing               bool
	rep1, rep2                 bool
	insufficient               bool
	eval                       Value
	board                      [64]Piece
	next                       Color
	cr                         CastlingRights
	ep                         Square
	half                       int
}

func takeSnap(p *position.Position, ev *evaluator.Evaluator) snap {
	var s snap
	s.fen = p.StringFen()
	s.key = p.ZobristKey()
	for c := White; c <= Black; c++ {
		for pt := PtNone; pt < PtLength; pt++ {
			s.pieces[c][pt] = p.PiecesBb(c, pt)
		}
		s.occ[c] = p.OccupiedBb(c)
		s.king[c] = p.KingSquare(c)
		s.material[c] = p.Material(c)
		s.nonPawn[c] = p.MaterialNonPawn(c)
		s.psqMid[c] = p.PsqMidValue(c)
		s.psqEnd[c] = p.PsqEndValue(c)
	}
	s.occAll = p.OccupiedAll()
	s.phase = p.GamePhase()
	s.phaseFactor = p.GamePhaseFactor()
	s.hasCheck = p.HasCheck()
	s.lastMove = p.LastMove()
	s.lastCaptured = p.LastCapturedPiece()
	s.wasCapturing = p.WasCapturingMove()
	s.rep1 = p.CheckRepetitions(1)
	s.rep2 = p.CheckRepetitions(2)
	s.insufficient = p.HasInsufficientMaterial()
	for sq := 0; sq < 64; sq++ {
		s.board[sq] = p.GetPiece(Square(sq))
	}
	s.next = p.NextPlayer()
	s.cr = p.CastlingRights()
	s.ep = p.GetEnPassantSquare()
	s.half = p.HalfMoveClock()
	if ev != nil {
		s.eval = ev.Evaluate(p)
	}
	return s
}

// snapDiffs names every class of observable that differs.
func snapDiffs(a, b snap) []string {
	var d []string
	add := func(c bool, n string) {
		if c {
			d = append(d, n)
		}
	}
	add(a.fen != b.fen, "fen-"+fenDiffField(a.fen, b.fen))
	add(a.key != b.key, "zobristkey")
	add(a.pieces != b.pieces, "piecesBb")
	add(a.occ != b.occ || a.occAll != b.occAll, "occupiedBb")
	add(a.king != b.king, "kingsquare")
	add(a.material != b.material, "material")
	add(a.nonPawn != b.nonPawn, "materialNonPawn")
	add(a.psqMid != b.psqMid, "psqMid")
	add(a.psqEnd != b.psqEnd, "psqEnd")
	add(a.phase != b.phase || a.phaseFactor != b.phaseFactor, "gamephase")
	add(a.hasCheck != b.hasCheck, "hascheck")
	add(a.lastMove != b.lastMove, "lastmove")
	add(a.lastCaptured != b.lastCaptured || a.wasCapturing != b.wasCapturing, "lastcaptured")
	add(a.rep1 != b.rep1 || a.rep2 != b.rep2, "repetitions")
	add(a.insufficient != b.insufficient, "insufficientmaterial")
	add(a.board != b.board, "getpiece")
	add(a.next != b.next || a.cr != b.cr || a.ep != b.ep || a.half != b.half, "scalars")
	add(a.eval != b.eval, "evaluation")
	return d
}

// phaseSum recomputes the game phase from the board (unclamped).
func phaseSum(p *position.Position) int {
	n := 0
	for sq := 0; sq < 64; sq++ {
		if pc := p.GetPiece(Square(sq)); pc != PieceNone {
			n += pc.TypeOf().GamePhaseValue()
		}
	}
	return n
}

// isClampEvent: does making move m on p push the raw game-phase sum above the documented maximum
// (the situation in which the known phase-clamp defect loses information)?
func isClampEvent(p *position.Position, m Move) bool {
	if m.MoveType() != Promotion {
		return false
	}
	sum := phaseSum(p)
	if cp := p.GetPiece(m.To()); cp != PieceNone {
		sum -= cp.TypeOf().GamePhaseValue()
	}
	return sum+m.PromotionType().GamePhaseValue() > GamePhaseMax
}

const keyClamp = "gamephase-clamp-not-inverted"
const whatClamp = "game phase clamped at its maximum when a promotion raises the raw officer sum above 24; the clamp is not inverted by undo, so the phase (and everything derived from it) drifts"

// report files each differing class; game-phase (and evaluation) differences that are explained by
// the known clamp defect go to its specific key, everything else is a violation of its own class.
func (u *c03user) report(w *wctx, r *refchess.Pos, prefix string, diffs []string, clampNow bool, extra map[string]interface{}) {
	if len(diffs) == 0 {
		return
	}
	if clampNow {
		w.clampSeen = true
	}
	phaseDiff := false
	for _, d := range diffs {
		if d == "gamephase" {
			phaseDiff = true
		}
	}
	for _, d := range diffs {
		if (d == "gamephase" || (d == "evaluation" && phaseDiff)) && (clampNow || w.clampSeen) {
			w.run.Violate(keyClamp, whatClamp, w.replayOf(r, extra))
			continue
		}
		w.run.Violate(prefix+":"+d, prefix+" does not restore "+d, w.replayOf(r, extra))
	}
}

type c03user struct {
	ev        *evaluator.Evaluator
	stack     []snap
}

// c03Pre: snapshot; one-level excursion over every pseudo-legal move and over the null move
// (with one more level below the null move); push snapshot for the deep comparison in c03Post.
func c03Pre(w *wctx, p *position.Position, r *refchess.Pos) {
	u := w.user.(*c03user)
	run := w.run
	s0 := takeSnap(p, u.ev)
	u.stack = append(u.stack, s0)
	pseudo := append([]Move{}, (*w.mg.GeneratePseudoLegalMoves(p, movegen.GenAll, false))...)
	doMoves := func() {
		for _, m := range pseudo {
			clamp := isClampEvent(p, m)
			p.DoMove(m)
			p.HasCheck() // populate the cache as a search would
			p.UndoMove()
			run.AddTransitions(1)
			u.report(w, r, "undo:"+kindNames[eng.TupleOfEng(m).Kind], snapDiffs(s0, takeSnap(p, u.ev)), clamp,
				map[string]interface{}{"move": m.StringUci(), "ops": "DoMove UndoMove"})
		}
	}
	// Unprimed excursions: every query above has cached this position's in-check answer. A position whose answer was
	// never asked (set up from FEN, as a GUI hands it to the engine) is taken through each move that changes the check
	// status - made, the child asked, unmade - and only then asked itself.
	for _, m := range pseudo {
		if p.GivesCheck(m) == s0.hasCheck {
			continue
		}
		fp, err := position.NewPositionFen(r.FEN())
		if err != nil {
			break
		}
		fp.DoMove(m)
		legal := fp.WasLegalMove()
		fp.HasCheck()
		fp.UndoMove()
		run.AddTransitions(1)
		if legal && fp.HasCheck() != s0.hasCheck {
			w.run.Violate("undo-unprimed:hascheck", fmt.Sprintf("position set up from FEN, DoMove(%s), HasCheck on the child, UndoMove: HasCheck()=%v but the king is attacked=%v", m.StringUci(), !s0.hasCheck, s0.hasCheck),
				w.replayOf(r, map[string]interface{}{"move": m.StringUci(), "ops": "NewPositionFen DoMove HasCheck UndoMove HasCheck"}))
		}
	}
	// The null-move excursion comes first: the undo-stack slot of this ply then still holds what an earlier node of the
	// walk (a sibling subtree with another clock / check status / ep square) left there, or nothing at all for a
	// position set up from FEN - a null move that does not save one of the scalars restores that stale value.
	defer doMoves()
	if !s0.hasCheck {
		p.DoNullMove()
		run.Count("null_moves", 1)
		sN := takeSnap(p, u.ev)
		for _, m := range append([]Move{}, (*w.mg2.GeneratePseudoLegalMoves(p, movegen.GenAll, false))...) {
			clamp := isClampEvent(p, m)
			p.DoMove(m)
			p.UndoMove()
			run.AddTransitions(1)
			u.report(w, r, "undo-after-null", snapDiffs(sN, takeSnap(p, u.ev)), clamp,
				map[string]interface{}{"move": m.StringUci(), "ops": "DoNullMove DoMove UndoMove"})
		}
		p.UndoNullMove()
		u.report(w, r, "undonull", snapDiffs(s0, takeSnap(p, u.ev)), false, map[string]interface{}{"ops": "DoNullMove ... UndoNullMove"})
	}
}

// c03Post runs after the whole subtree below the node has been made and unmade.
func c03Post(w *wctx, p *position.Position, r *refchess.Pos) {
	u := w.user.(*c03user)
	s0 := u.stack[len(u.stack)-1]
	u.stack = u.stack[:len(u.stack)-1]
	u.report(w, r, "undo-deep", snapDiffs(s0, takeSnap(p, u.ev)), false, map[string]interface{}{"ops": "subtree do/undo"})
}

func c03Walks(run *vl.Run, specs []walkSpec) {
	vl.Parallel(len(specs), func(i, n int) {
		ws := specs[i]
		_, seq := walkMoves(ws)
		ev := evaluator.NewEvaluator()
		rep := map[string]interface{}{"kind": "walk", "fen": ws.fen, "rule": fmt.Sprintf("(%d*i+%d) mod n", ws.a, ws.b), "plies": len(seq)}
		p, err := position.NewPositionFen(ws.fen)
		if err != nil {
			run.Violate("setup-failed", err.Error(), rep)
			return
		}
		msg, pan := vl.Guard(func() {
			var stack []snap
			clampSeen := false
			for _, m := range seq {
				stack = append(stack, takeSnap(p, ev))
				if isClampEvent(p, eng.EngMove(m)) {
					clampSeen = true
				}
				p.DoMove(eng.EngMove(m))
			}
			for k := len(seq) - 1; k >= 0; k-- {
				p.UndoMove()
				run.AddTransitions(1)
				for _, d := range snapDiffs(stack[k], takeSnap(p, ev)) {
					rep["ply"] = k
					if clampSeen && (d == "gamephase" || d == "evaluation") {
						run.Violate(keyClamp, whatClamp, rep)
					} else {
						run.Violate("walk-undo:"+d, "512-ply do/undo: "+d+" not restored", rep)
					}
					return
				}
			}
		})
		if pan {
			run.Violate("walk-panic", "do/undo walk within capacity panicked: "+msg, rep)
		}
		if len(seq) == 512 {
			run.Count("walks_reaching_512_plies", 1)
		}
		run.SampleCat("WALK", rep)
	})
}

func c03(tier string, args []string) int {
	run := vl.NewRun("C03", tier)
	run.Rule("every node of the game trees: snapshot of all public observables + static evaluation, compared after DoMove/UndoMove of every pseudo-legal move, after DoNullMove/(moves)/UndoNullMove, and after the complete subtree below the node was made and unmade; k-man promotion/ep families one level; 512-ply walks")
	run.SetDeadline(budget(tier))
	depth, seeds, walks := 2, quickSeeds(), walkSpecs[:6]
	if tier == "thorough" {
		depth, seeds, walks = 3, space.AllSeeds(), walkSpecs
	}
	nu := func() interface{} { return &c03user{ev: evaluator.NewEvaluator()} }
	runTree(run, seeds, depth, nu, c03Pre, c03Post)
	one := func(w *wctx, p *position.Position, r *refchess.Pos) {
		c03Pre(w, p, r)
		c03Post(w, p, r)
		if r.EP < 0 { // also with non-trivial clocks (a position set up from FEN has an empty undo stack); 130: beyond a signed byte
			for _, hc := range [][2]int{{37, 41}, {130, 90}} {
				r2 := r.Clone()
				r2.Half, r2.Full = hc[0], hc[1]
				if p2, err := position.NewPositionFen(r2.FEN()); err == nil {
					c03Pre(w, p2, r2)
					c03Post(w, p2, r2)
				}
			}
		}
	}
	fams := []family{famPPromo(), famPEP([]int8{}, true, "PEP(kings+pawns, second capturer)")}
	if tier == "thorough" {
		fams = append(fams, famPCastle(0), famP3(space.P3Opt{}, "P3"))
	}
	runFamilies(run, fams, nu, one)
	c03Walks(run, walks)
	return run.Finish()
}
