package main

import (
	"fmt"
	"os"
	"strings"
	"sync/atomic"
	"time"

	"github.com/frankkopp/FrankyGo/internal/config"
	"github.com/frankkopp/FrankyGo/internal/movegen"
	"github.com/frankkopp/FrankyGo/internal/position"
	"github.com/frankkopp/FrankyGo/internal/uci"

	"github.com/frankkopp/FrankyGo/verif/refchess"
	"github.com/frankkopp/FrankyGo/verif/sched"
	"github.com/frankkopp/FrankyGo/verif/space"
	"github.com/frankkopp/FrankyGo/verif/vl"
)

func init() { registry["C16"] = c16 }

// fenCase: NewPositionFen(s) either errors or yields a position whose own FEN parses back to the same position.
func fenCase(run *vl.Run, mg *movegen.Movegen, s string, family string) {
	var p *position.Position
	var err error
	msg, pan := vl.Guard(func() { p, err = position.NewPositionFen(s) })
	rep := map[string]interface{}{"kind": "fen", "fen": s, "family": family}
	if pan {
		cls := "fen-panic"
		switch {
		case strings.Contains(msg, "index out of range"):
			cls = "fen-panic:index-out-of-range"
		case strings.Contains(msg, "nil pointer"):
			cls = "fen-panic:nil-pointer"
		}
		run.Violate(cls, fmt.Sprintf("NewPositionFen(%q) panicked: %s", s, msg), rep)
		return
	}
	if err != nil {
		if p != nil {
			run.Violate("fen-error-with-position", "error and a position returned together", rep)
		}
		return
	}
	if p == nil {
		run.Violate("fen-nil-without-error", "neither error nor position", rep)
		return
	}
	var out string
	var q *position.Position
	msg, pan = vl.Guard(func() {
		out = p.StringFen()
		q, err = position.NewPositionFen(out)
	})
	rep["engine_fen"] = out
	if pan {
		run.Violate("fen-output-panic", "printing / re-reading the accepted position panicked: "+msg, rep)
		return
	}
	if err != nil || q == nil {
		run.Violate("fen-output-rejected", fmt.Sprintf("accepted %q but its own FEN output %q is rejected", s, out), rep)
		return
	}
	var d []string
	if msg, pan := vl.Guard(func() { d = snapDiffs(takeSnap(p, nil), takeSnap(q, nil)) }); pan {
		cls := "fen-accepted-position-crashes-accessors"
		if r, err := refchess.ParseFEN(out); err == nil && r.EP >= 0 && r.EP/8 != 2 && r.EP/8 != 5 {
			cls = "fen-accepted-position-crashes-accessors:ep-square-off-rank-3-6"
		}
		run.Violate(cls, fmt.Sprintf("accepted %q but reading the position (HasCheck, ...) panics: %s", s, msg), rep)
		return
	}
	if len(d) > 0 {
		run.Violate("fen-roundtrip:"+d[0], fmt.Sprintf("accepted %q, FEN output %q parses to a different position (%s)", s, out, d[0]), rep)
		return
	}
	// positions with exactly one king each: move generation must not crash
	wk, bk := 0, 0
	for _, c := range strings.Fields(out)[0] {
		if c == 'K' {
			wk++
		}
		if c == 'k' {
			bk++
		}
	}
	if wk == 1 && bk == 1 {
		if msg, pan := vl.Guard(func() { mg.GenerateLegalMoves(p, movegen.GenAll); p.HasCheck() }); pan {
			run.Violate("fen-accepted-position-crashes-movegen", "move generation on an accepted one-king-each position panicked: "+msg, rep)
		}
	}
}

var fenSeeds = []string{
	"rnbqkbnr/pppppppp/8/8/8/8/PPPPPPPP/RNBQKBNR w KQkq - 0 1",
	"r3k2r/p1ppqpb1/bn2pnp1/3PN3/1p2P3/2N2Q1p/PPPBBPPP/R3K2R w KQkq - 0 1",
	"8/8/8/1k1pP3/8/8/8/4K2R w K d6 0 2",
	"8/8/8/8/8/8/4k3/K7 b - - 99 120",
	"4k3/8/8/8/8/8/8/4K3 w - -",
	"k7/8/8/8/8/8/8/K7 b",
	"8/P7/8/8/8/8/8/k1K5",
	"rnbqkbnr/pp1ppppp/8/2p5/4P3/8/PPPP1PPP/RNBQKBNR w KQkq c6 0 2",
}

const editAlphabet = "KkQqRrBbNnPp0123456789/ wb-acdefgh"

func c16Fen(run *vl.Run, tier string) {
	maxLen := 6
	if tier == "thorough" {
		maxLen = 7
	}
	alpha := "KkPpR17890/"
	var total int64
	// (a) all strings over the alphabet up to maxLen, as placement with the other fields and alone. Shards = first two symbols.
	type pre struct{ s string }
	var prefixes []string
	for _, a := range alpha {
		prefixes = append(prefixes, string(a))
		for _, b := range alpha {
			prefixes = append(prefixes, string(a)+string(b))
		}
	}
	vl.Parallel(len(prefixes), func(pi, _ int) {
		mg := movegen.NewMoveGen()
		pf := prefixes[pi]
		var local int64
		var gen func(s string)
		gen = func(s string) {
			if len(pf) == 1 || len(s) > 1 { // one-symbol prefixes stand for the one-symbol string only
				fenCase(run, mg, s+" w - - 0 1", "placement strings")
				fenCase(run, mg, s, "placement strings (alone)")
				local += 2
			}
			if len(pf) == 1 || len(s) == maxLen || run.Expired() {
				return
			}
			for _, c := range alpha {
				gen(s + string(c))
			}
		}
		gen(pf)
		atomic.AddInt64(&total, local)
	})
	run.Count("fen_placement_strings", total)
	// (b) single edits of seed FENs (thorough: double edits of the two shortest)
	var edits []string
	addEdits := func(f string, out *[]string) {
		for i := 0; i <= len(f); i++ {
			if i < len(f) {
				*out = append(*out, f[:i]+f[i+1:])
			}
			for _, c := range editAlphabet {
				*out = append(*out, f[:i]+string(c)+f[i:])
				if i < len(f) {
					*out = append(*out, f[:i]+string(c)+f[i+1:])
				}
			}
		}
	}
	for _, f := range fenSeeds {
		addEdits(f, &edits)
	}
	if tier == "thorough" {
		var first []string
		addEdits("k7/8/8/8/8/8/8/K7 b", &first)
		for _, f := range first {
			addEdits(f, &edits)
		}
	}
	// (c) field products
	for _, pl := range []string{"8/8/8/8/8/8/4k3/K7", "rnbqkbnr/pppppppp/8/8/8/8/PPPPPPPP/RNBQKBNR", "8/8/8/8/8/8/8/8", "", "9/8/8/8/8/8/8/8", "ppppppppp/8/8/8/8/8/8/8", "8/8/8/8/8/8/8", "8/8/8/8/8/8/8/8/8", "k7/8/8/8/8/8/8/K6R8"} {
		for _, side := range []string{"w", "b", "x", "W", ""} {
			for _, ca := range []string{"-", "KQkq", "K", "qk", "KK", "x", ""} {
				for _, ep := range []string{"-", "e3", "e6", "a9", "i3", "e", "h8", ""} {
					for _, hm := range []string{"0", "99", "-1", "x", "99999999999999999999", "9223372036854775807", ""} {
						for _, fm := range []string{"1", "0", "-5", "x", "", "4611686018427387904", "9223372036854775807"} {
							edits = append(edits, strings.TrimRight(strings.Join([]string{pl, side, ca, ep, hm, fm}, " "), " "))
							edits = append(edits, strings.Join([]string{pl, side, ca, ep, hm, fm}, " "))
						}
					}
				}
			}
		}
	}
	vl.Parallel(64, func(sh, n int) {
		mg := movegen.NewMoveGen()
		for i := sh; i < len(edits); i += n {
			fenCase(run, mg, edits[i], "edited / field-product FENs")
		}
	})
	run.Count("fen_edited_strings", int64(len(edits)))
	run.AddEvals(total + int64(len(edits)))
	// every legal position round-trips exactly
	fams := []family{famP3(space.P3Opt{Quadrant: true}, "P3(extra piece in a1-d4)"), famPEP([]int8{}, true, "PEP(kings+pawns)"), famPCastle(0)}
	if tier != "thorough" {
		fams = fams[:2]
	}
	exact := func(w *wctx, p *position.Position, r *refchess.Pos) {
		if got := p.StringFen(); got != r.FEN() {
			w.run.Violate("legal-fen-roundtrip:"+fenDiffField(got, r.FEN()), fmt.Sprintf("FEN %q comes back as %q", r.FEN(), got), w.replayOf(r, nil))
		}
	}
	runFamilies(run, fams, nil, exact)
	runTree(run, quickSeeds(), 2, nil, exact)
	run.Sample(map[string]interface{}{"kind": "fen", "fen": "9/8/8/8/8/8/8/8 w - - 0 1"})
	run.Sample(map[string]interface{}{"kind": "fen", "fen": "8/8/8/8/8/8/4k3/K7 b x e9 99999999999999999999"})
}

// ---- UCI lines ----

var uciTokens = []string{"uci", "isready", "ucinewgame", "position", "go", "stop", "ponderhit", "setoption", "debug", "register", "noop", "xyz", "perft",
	"startpos", "fen", "moves", "depth", "nodes", "movetime", "moveTime", "wtime", "btime", "winc", "binc", "movestogo", "mate", "infinite", "ponder", "searchmoves", "name", "value",
	"0", "1", "2", "-1", "x", "99999999999999999999", "e2e4", "e7e5", "e2e5", "a1b1",
	"8/8/8/8/8/8/4k3/K7", "w", "-", "9/8/8/8/8/8/8/8", "Hash", "Use_Hash", "false"}

// expectedAfter models which position the handler must hold after a line (given the position before).
// It returns the acceptable identities (a position command that breaks off at a bad move may keep the
// previous position or the position after the legal prefix).
func expectedAfter(before *refchess.Pos, line string) []*refchess.Pos {
	t := strings.Fields(line)
	start := refchess.MustFEN("rnbqkbnr/pppppppp/8/8/8/8/PPPPPPPP/RNBQKBNR w KQkq - 0 1")
	if len(t) == 0 {
		return []*refchess.Pos{before}
	}
	switch t[0] {
	case "ucinewgame":
		return []*refchess.Pos{start}
	case "position":
		if len(t) < 2 {
			return []*refchess.Pos{before}
		}
		var base *refchess.Pos
		i := 2
		switch t[1] {
		case "startpos":
			base = start
		case "fen":
			var f []string
			for i < len(t) && t[i] != "moves" {
				f = append(f, t[i])
				i++
			}
			fs := strings.Join(f, " ")
			// the engine completes missing fields with defaults
			for n := len(f); n < 4 && n >= 1; n++ {
				fs += []string{"", " w", " -", " -"}[n]
			}
			if len(f) < 6 {
				if len(f) < 5 {
					fs += " 0"
				}
				fs += " 1"
			}
			b, err := refchess.ParseFEN(fs)
			if err != nil || len(f) == 0 {
				return []*refchess.Pos{before}
			}
			base = b
		default:
			return []*refchess.Pos{before}
		}
		res := []*refchess.Pos{}
		cur := base
		if i < len(t) {
			if t[i] != "moves" {
				return []*refchess.Pos{before, base}
			}
			for _, u := range t[i+1:] {
				m, ok := cur.FindUci(u)
				if !ok {
					return []*refchess.Pos{before, cur, base}
				}
				cur = cur.Make(m)
			}
		}
		res = append(res, cur)
		if !base.Valid() {
			// a placement that is no chess position (kings missing or doubled, pawns on the back ranks, the side not
			// to move in check): the parser may reject it (previous position kept) or accept it
			res = append(res, before)
		}
		return res
	}
	return []*refchess.Pos{before}
}

// panicSite names the first engine function (outside package position/types) on the panic stack.
func panicSite(detail string) string {
	for _, l := range strings.Split(detail, "\n") {
		for _, pk := range []string{"internal/uci.", "internal/search.", "internal/movegen."} {
			if i := strings.Index(l, pk); i >= 0 {
				f := l[i+len("internal/"):]
				if j := strings.Index(f, "("); j > 0 {
					if strings.HasPrefix(f[j:], "(*") {
						if k := strings.Index(f[j+1:], "("); k > 0 {
							return strings.NewReplacer("(*", "", ")", "").Replace(f[:j+1+k])
						}
					}
					return f[:j]
				}
			}
		}
	}
	return "unknown"
}

// uciCase runs a short script of lines on a fresh handler, then stop / isready, and checks responsiveness and position.
func uciCase(run *vl.Run, lines []string, family string) {
	vl.Journal(map[string]interface{}{"commands": lines})
	var readyBefore, readyAfter int
	var fenAfter string
	var sess *uciSession
	x := sched.Run(nil, func() {
		s := newSession()
		sess = s
		for _, l := range lines {
			s.send(l)
		}
		fenAfter = s.h.VerifFen()
		s.send("stop")
		readyBefore = s.ready
		s.send("isready")
		readyAfter = s.ready
		fenAfter = s.h.VerifFen()
		s.send("stop")
	}, sched.Options{MaxSteps: 3000000, MaxTicks: 3000, StepCost: 20 * time.Microsecond})
	rep := map[string]interface{}{"kind": "uci", "commands": lines, "family": family}
	run.AddTransitions(int64(x.Steps))
	switch x.Verdict {
	case "panic":
		cls := "uci-panic"
		switch {
		case strings.Contains(x.Detail, "index out of range"):
			cls = "uci-panic:index-out-of-range:" + panicSite(x.Detail)
		case strings.Contains(x.Detail, "nil pointer"):
			cls = "uci-panic:nil-pointer:" + panicSite(x.Detail)
		}
		for _, l := range lines {
			if len(strings.Fields(l)) > 500 && strings.Contains(x.Detail, "index out of range [512]") {
				cls = "uci-panic:game-history-capacity"
			}
		}
		run.Violate(cls, "handler or search panicked: "+x.Detail, rep)
		return
	case "deadlock", "horizon":
		run.Violate("uci-unresponsive", x.Verdict+": "+x.Detail, rep)
		return
	case "divergence":
		fmt.Fprintln(os.Stderr, "infrastructure error:", x.Detail)
		os.Exit(2)
	}
	if readyAfter != readyBefore+1 {
		run.Violate("uci-no-readyok", "isready after the line(s) was not answered by readyok", rep)
	}
	// position
	cur := refchess.MustFEN("rnbqkbnr/pppppppp/8/8/8/8/PPPPPPPP/RNBQKBNR w KQkq - 0 1")
	acc := []*refchess.Pos{cur}
	for _, l := range lines {
		var next []*refchess.Pos
		for _, a := range acc {
			next = append(next, expectedAfter(a, l)...)
		}
		acc = next
	}
	if fenAfter == "" {
		run.Violate("uci-position-lost", "the handler holds no position after the line(s)", rep)
		return
	}
	got := identityOfFen(fenAfter)
	ok := false
	for _, a := range acc {
		if a.Identity() == got {
			ok = true
		}
	}
	if !ok {
		rep["engine_fen"] = fenAfter
		run.Violate("uci-position-wrong", "the handler does not hold the last validly set position: "+fenAfter, rep)
	}
	_ = sess
}

func c16(tier string, args []string) int {
	run := vl.NewRun("C16", tier)
	if !sched.IsInstrumented("search") || !sched.IsInstrumented("uci") {
		fmt.Fprintln(os.Stderr, "C16 needs the instrumented build")
		return 2
	}
	run.Rule("FEN: every string over an 11-symbol alphabet up to length 6 (7) as placement field (with and without the other fields), every single edit of 8 seed FENs, field-level products of valid/empty/overlong/non-numeric values, each under recover with round-trip of the accepted position; every legal position of the families/trees round-trips exactly. UCI: every line of up to 3 tokens from a 47-token alphabet and every ordered pair from a line subset on a fresh handler under the scheduler, followed by stop/isready: no panic (any thread), no deadlock, readyok, position = last validly set position")
	shard, n, worker := vl.WorkerShard()
	if !worker {
		return run.RunWorkers(17)
	}
	silenceStdout()
	config.Settings.Search.UseBook = false
	config.Settings.Search.TTSize = 1
	run.SetDeadline(budget(tier))
	if shard == n-1 {
		vl.SetWorkers(16)
		c16Fen(run, tier)
		return run.FinishWorker()
	}
	n--
	// UCI lines up to 3 tokens
	var lines []string
	for _, a := range uciTokens {
		lines = append(lines, a)
		for _, b := range uciTokens {
			lines = append(lines, a+" "+b)
			if tier == "thorough" || (a == "position" || a == "go" || a == "setoption") {
				for _, c := range uciTokens {
					lines = append(lines, a+" "+b+" "+c)
				}
			}
		}
	}
	lines = append(lines, "", " ", "position fen 8/8/8/8/8/8/4k3/K7 w - - 0 1 moves a1b1 e2d2", "position startpos moves e2e4 e7e5 g1f3", "go wtime 100 btime 100 winc 1 binc 1 movestogo 5 depth 2")
	// move lists around the documented game-length capacity (512 plies)
	shuffle := []string{"g1f3", "g8f6", "f3g1", "f6g8"}
	for _, plies := range []int{380, 400, 511, 512, 513, 600} {
		var ms []string
		for i := 0; i < plies; i++ {
			ms = append(ms, shuffle[i%4])
		}
		lines = append(lines, "position startpos moves "+strings.Join(ms, " "))
	}
	// every option the engine announces x values of every kind (out of range, not a number, huge, empty)
	for _, name := range c16OptionNames() {
		for _, v := range []string{"-1", "0", "1", "65001", "99999999", "99999999999999999999", "x", "true", "false", ""} {
			l := "setoption name " + name + " value " + v
			lines = append(lines, strings.TrimSpace(l))
		}
	}
	var cases int64
	for i, l := range lines {
		if i%n != shard || run.Expired() {
			continue
		}
		if strings.HasPrefix(l, "perft") && l != "perft 1" && l != "perft 0" && l != "perft x" {
			continue // perft without small depth runs a long computation that prints to stdout
		}
		uciCase(run, []string{l}, "single lines")
		cases++
	}
	// ordered pairs of a subset
	sub := []string{"position", "position fen", "position fen 9/8/8/8/8/8/8/8", "position fen 8/8/8/8/8/8/4k3/K7 w", "position fen x", "position startpos moves e2e5",
		"position startpos moves e2e4", "position startpos", "go", "go depth", "go depth 1", "go nodes 5", "go infinite", "go ponder", "go movetime 3", "go wtime 0", "go mate 1",
		"go searchmoves e2e4 depth 1", "go depth x", "stop", "ponderhit", "isready", "ucinewgame", "uci", "setoption name Hash value 0", "setoption name Use_Hash value false",
		"setoption name Hash value 1", "setoption", "xyz", "debug", "register", "noop"}
	// a search started close to the game-length capacity
	pi := 0
	for _, plies := range []int{384, 480, 505, 509, 511} {
		var ms []string
		for i := 0; i < plies; i++ {
			ms = append(ms, shuffle[i%4])
		}
		for _, g := range []string{"go depth 2", "go depth 4", "go movetime 30"} {
			pi++
			if pi%n != shard {
				continue
			}
			uciCase(run, []string{"position startpos moves " + strings.Join(ms, " "), g}, "search near the game-length capacity")
			cases++
		}
	}
	// structurally odd placements (kings missing / doubled / adjacent, pawns on the back ranks, the side not to move in
	// check, 10 queens): whatever the parser accepts must not crash a following search or move list
	odd := []string{"8/8/8/8/8/8/8/8 w - - 0 1", "k7/8/8/8/8/8/8/8 w - - 0 1", "8/8/8/8/8/8/8/K7 b - - 0 1", "kk6/8/8/8/8/8/8/K7 w - - 0 1",
		"k7/8/8/8/8/8/8/KK6 b - - 0 1", "kK6/8/8/8/8/8/8/8 w - - 0 1", "kP6/8/8/8/8/8/8/K7 w - - 0 1", "k7/8/8/8/8/8/8/Kp6 b - - 0 1",
		"k7/8/8/8/8/8/8/KP6 w - - 0 1", "kp6/8/8/8/8/8/8/K7 b - - 0 1", "k7/8/8/8/8/8/8/K6r b - - 0 1", "k6R/8/8/8/8/8/8/K7 w - - 0 1",
		"k7/8/8/8/8/8/QQQQQQQQ/KQQ5 w - - 0 1", "k7/pppppppp/pppppppp/8/8/8/8/K7 b - - 0 1", "r3k2r/8/8/8/8/8/8/4K3 w KQkq - 0 1", "4k3/8/8/8/8/8/8/R3K2R b KQ - 0 1"}
	for _, f := range odd {
		for _, g := range []string{"go depth 2", "go nodes 50", "position fen " + f + " moves a1a2", "go perft 1"} {
			pi++
			if pi%n != shard || run.Expired() || g == "go perft 1" {
				continue
			}
			uciCase(run, []string{"position fen " + f, g}, "odd placement then search")
			cases++
		}
	}
	for _, a := range sub {
		for _, b := range sub {
			pi++
			if pi%n != shard || run.Expired() {
				continue
			}
			uciCase(run, []string{a, b}, "ordered pairs")
			cases++
			// options are process-global: restore the defaults that the pair alphabet touches
			config.Settings.Search.UseTT = true
			config.Settings.Search.TTSize = 1
		}
	}
	run.AddStates(cases)
	run.Count("uci_cases", cases)
	if shard == 0 {
		run.Sample(map[string]interface{}{"kind": "uci", "commands": []string{"position fen 9/8/8/8/8/8/8/8", "go depth 1"}})
		run.Sample(map[string]interface{}{"kind": "uci", "commands": []string{"go depth"}})
	}
	return run.FinishWorker()
}

// c16OptionNames: the option names the engine announces in reply to "uci"
func c16OptionNames() []string {
	h := uci.NewUciHandler()
	var names []string
	for _, l := range strings.Split(h.Command("uci"), "\n") {
		f := strings.Fields(l)
		if len(f) >= 3 && f[0] == "option" && f[1] == "name" {
			var n []string
			for _, w := range f[2:] {
				if w == "type" {
					break
				}
				n = append(n, w)
			}
			names = append(names, strings.Join(n, " "))
		}
	}
	return names
}
