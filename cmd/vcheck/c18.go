package main

import (
	"fmt"

	. "github.com/frankkopp/FrankyGo/internal/types"

	"github.com/frankkopp/FrankyGo/verif/vl"
)

func init() { registry["C18"] = c18 }

func sqOf(f, r int) int { return r*8 + f }
func bit(f, r int) Bitboard {
	if f < 0 || f > 7 || r < 0 || r > 7 {
		return 0
	}
	return Bitboard(1) << uint(sqOf(f, r))
}

var dirVec = map[Direction][2]int{North: {0, 1}, East: {1, 0}, South: {0, -1}, West: {-1, 0}, Northeast: {1, 1}, Southeast: {1, -1}, Southwest: {-1, -1}, Northwest: {-1, 1}}
var oriVec = map[Orientation][2]int{NW: {-1, 1}, N: {0, 1}, NE: {1, 1}, E: {1, 0}, SE: {1, -1}, S: {0, -1}, SW: {-1, -1}, W: {-1, 0}}

// slide: geometric sliding attack from (f,r) along the given step vectors with blockers occ
func slide(f, r int, vecs [][2]int, occ Bitboard) Bitboard {
	var b Bitboard
	for _, v := range vecs {
		x, y := f+v[0], r+v[1]
		for x >= 0 && x < 8 && y >= 0 && y < 8 {
			b |= bit(x, y)
			if occ&bit(x, y) != 0 {
				break
			}
			x, y = x+v[0], y+v[1]
		}
	}
	return b
}

var rookVecs = [][2]int{{1, 0}, {-1, 0}, {0, 1}, {0, -1}}
var bishopVecs = [][2]int{{1, 1}, {-1, 1}, {1, -1}, {-1, -1}}

// lineSquares lists the squares on the piece's lines from (f,r) (excluding the square itself)
func lineSquares(f, r int, vecs [][2]int) []int {
	var l []int
	for _, v := range vecs {
		x, y := f+v[0], r+v[1]
		for x >= 0 && x < 8 && y >= 0 && y < 8 {
			l = append(l, sqOf(x, y))
			x, y = x+v[0], y+v[1]
		}
	}
	return l
}

func c18(tier string, args []string) int {
	run := vl.NewRun("C18", tier)
	run.Rule("complete sweep: sliding attacks for 64 squares x every subset of the square's own lines x 3 backgrounds elsewhere; all step-piece sets; rays/intermediate for all square pairs; all masks; distances; castling rights by square; board shifts for all single bits, all pairs of bits on one file/rank and edge patterns, 8 directions")
	bad := func(key, what string, rep interface{}) { run.Violate(key, what, rep) }

	// sliding attacks, complete over line occupancies
	backgrounds := []Bitboard{0, ^Bitboard(0), 0xAA55AA55AA55AA55}
	vl.Parallel(64, func(sq, n int) {
		f, r := sq%8, sq/8
		for _, pc := range []struct {
			pt   PieceType
			vecs [][2]int
		}{{Rook, rookVecs}, {Bishop, bishopVecs}} {
			line := lineSquares(f, r, pc.vecs)
			var lineMask Bitboard
			for _, s := range line {
				lineMask |= Bitboard(1) << uint(s)
			}
			var cases int64
			for sub := 0; sub < 1<<uint(len(line)); sub++ {
				var occLine Bitboard
				for i, s := range line {
					if sub&(1<<uint(i)) != 0 {
						occLine |= Bitboard(1) << uint(s)
					}
				}
				want := slide(f, r, pc.vecs, occLine)
				for _, bg := range backgrounds {
					occ := occLine | (bg &^ lineMask)
					for _, self := range []Bitboard{0, Bitboard(1) << uint(sq)} {
						cases++
						if got := GetAttacksBb(pc.pt, Square(sq), occ|self); got != want {
							bad("sliding:"+pc.pt.String(), fmt.Sprintf("GetAttacksBb(%s,%s,%#x)=%#x want %#x", pc.pt.String(), Square(sq).String(), uint64(occ|self), uint64(got), uint64(want)),
								map[string]interface{}{"piece": pc.pt.String(), "square": Square(sq).String(), "occupied": fmt.Sprintf("%#x", uint64(occ|self))})
						}
					}
				}
			}
			run.AddStates(cases)
		}
		// queen = rook | bishop on all subsets of a coarse grid (every pair of blockers on its lines + backgrounds)
		ql := lineSquares(f, r, append(append([][2]int{}, rookVecs...), bishopVecs...))
		for i := 0; i <= len(ql); i++ {
			for j := i; j <= len(ql); j++ {
				var occ Bitboard
				if i < len(ql) {
					occ |= Bitboard(1) << uint(ql[i])
				}
				if j < len(ql) {
					occ |= Bitboard(1) << uint(ql[j])
				}
				for _, bg := range backgrounds {
					o := occ | bg
					if bg == 0 {
						o = occ
					}
					want := slide(f, r, rookVecs, o) | slide(f, r, bishopVecs, o)
					run.AddStates(1)
					if got := GetAttacksBb(Queen, Square(sq), o); got != want {
						bad("sliding:Queen", "queen attacks differ from rook|bishop geometry", map[string]interface{}{"square": Square(sq).String(), "occupied": fmt.Sprintf("%#x", uint64(o))})
					}
				}
			}
		}
	})

	// the rotated-bitboard line lookups (exported, superseded by GetAttacksBb but still precomputed tables): every square x
	// every occupancy of the line x backgrounds elsewhere (the neighbouring lines are what a wrong mask lets in)
	lineFns := []struct {
		name string
		vecs [][2]int
		fn   func(Square, Bitboard) Bitboard
	}{
		{"GetMovesOnRank", [][2]int{{1, 0}, {-1, 0}}, GetMovesOnRank},
		{"GetMovesOnFile", [][2]int{{0, 1}, {0, -1}}, GetMovesOnFile},
		{"GetMovesDiagUp", [][2]int{{1, 1}, {-1, -1}}, GetMovesDiagUp},
		{"GetMovesDiagDown", [][2]int{{1, -1}, {-1, 1}}, GetMovesDiagDown},
	}
	vl.Parallel(64, func(sq, n int) {
		f, r := sq%8, sq/8
		for _, lf := range lineFns {
			line := lineSquares(f, r, lf.vecs)
			var lineMask Bitboard
			for _, s := range line {
				lineMask |= Bitboard(1) << uint(s)
			}
			var cases int64
			for sub := 0; sub < 1<<uint(len(line)); sub++ {
				var occLine Bitboard
				for i, s := range line {
					if sub&(1<<uint(i)) != 0 {
						occLine |= Bitboard(1) << uint(s)
					}
				}
				want := slide(f, r, lf.vecs, occLine)
				for _, bg := range append(append([]Bitboard{}, backgrounds...), 0x00FF00FF00FF00FF, 0xF0F0F0F00F0F0F0F) {
					occ := occLine | (bg &^ lineMask) | Bitboard(1)<<uint(sq)
					cases++
					var got Bitboard
					if msg, pan := vl.Guard(func() { got = lf.fn(Square(sq), occ) }); pan {
						bad("line-lookup-panic:"+lf.name, lf.name+" panicked: "+msg, map[string]interface{}{"square": Square(sq).String(), "occupied": fmt.Sprintf("%#x", uint64(occ))})
					} else if got != want {
						bad("line-lookup:"+lf.name, fmt.Sprintf("%s(%s,%#x)=%#x want %#x", lf.name, Square(sq).String(), uint64(occ), uint64(got), uint64(want)),
							map[string]interface{}{"square": Square(sq).String(), "occupied": fmt.Sprintf("%#x", uint64(occ))})
					}
				}
			}
			run.AddStates(cases)
		}
	})

	// step pieces, pawn attacks, pseudo attacks
	for sq := 0; sq < 64; sq++ {
		f, r := sq%8, sq/8
		var kn, kg Bitboard
		for _, d := range [][2]int{{1, 2}, {2, 1}, {2, -1}, {1, -2}, {-1, -2}, {-2, -1}, {-2, 1}, {-1, 2}} {
			kn |= bit(f+d[0], r+d[1])
		}
		for dx := -1; dx <= 1; dx++ {
			for dy := -1; dy <= 1; dy++ {
				if dx != 0 || dy != 0 {
					kg |= bit(f+dx, r+dy)
				}
			}
		}
		s := Square(sq)
		chk := func(name string, got, want Bitboard) {
			run.AddStates(1)
			if got != want {
				bad("table:"+name, fmt.Sprintf("%s(%s)=%#x want %#x", name, s.String(), uint64(got), uint64(want)), map[string]interface{}{"table": name, "square": s.String()})
			}
		}
		for _, occ := range []Bitboard{0, ^Bitboard(0), 0x1234567890ABCDEF} {
			chk("knight-attacks", GetAttacksBb(Knight, s, occ), kn)
			chk("king-attacks", GetAttacksBb(King, s, occ), kg)
		}
		chk("pseudo-knight", GetPseudoAttacks(Knight, s), kn)
		chk("pseudo-king", GetPseudoAttacks(King, s), kg)
		chk("pseudo-rook", GetPseudoAttacks(Rook, s), slide(f, r, rookVecs, 0))
		chk("pseudo-bishop", GetPseudoAttacks(Bishop, s), slide(f, r, bishopVecs, 0))
		chk("pseudo-queen", GetPseudoAttacks(Queen, s), slide(f, r, rookVecs, 0)|slide(f, r, bishopVecs, 0))
		chk("pawn-attacks-white", GetPawnAttacks(White, s), bit(f-1, r+1)|bit(f+1, r+1))
		chk("pawn-attacks-black", GetPawnAttacks(Black, s), bit(f-1, r-1)|bit(f+1, r-1))
		chk("square-bb", s.Bb(), bit(f, r))
		// rays
		for o, v := range oriVec {
			chk("ray-"+o.String(), s.Ray(o), slide(f, r, [][2]int{v}, 0))
		}
		// masks
		var fw, fe, rn, rs, f1w, f1e Bitboard
		for x := 0; x < 8; x++ {
			for y := 0; y < 8; y++ {
				if x < f {
					fw |= bit(x, y)
				}
				if x > f {
					fe |= bit(x, y)
				}
				if y > r {
					rn |= bit(x, y)
				}
				if y < r {
					rs |= bit(x, y)
				}
				if x == f-1 {
					f1w |= bit(x, y)
				}
				if x == f+1 {
					f1e |= bit(x, y)
				}
			}
		}
		chk("files-west", s.FilesWestMask(), fw)
		chk("files-east", s.FilesEastMask(), fe)
		chk("ranks-north", s.RanksNorthMask(), rn)
		chk("ranks-south", s.RanksSouthMask(), rs)
		chk("file-west", s.FileWestMask(), f1w)
		chk("file-east", s.FileEastMask(), f1e)
		chk("neighbour-files", s.NeighbourFilesMask(), f1w|f1e)
		var ppw, ppb, fileBb, rankBb Bitboard
		for x := 0; x < 8; x++ {
			for y := 0; y < 8; y++ {
				if x >= f-1 && x <= f+1 && y > r {
					ppw |= bit(x, y)
				}
				if x >= f-1 && x <= f+1 && y < r {
					ppb |= bit(x, y)
				}
				if x == f {
					fileBb |= bit(x, y)
				}
				if y == r {
					rankBb |= bit(x, y)
				}
			}
		}
		chk("passed-pawn-white", s.PassedPawnMask(White), ppw)
		chk("passed-pawn-black", s.PassedPawnMask(Black), ppb)
		chk("file-bb", s.FileOf().Bb(), fileBb)
		chk("rank-bb", s.RankOf().Bb(), rankBb)
		// centre distance = distance to the nearest of d4 e4 d5 e5
		cd := 99
		for _, c := range []int{27, 28, 35, 36} {
			d := maxInt(absInt(c%8-f), absInt(c/8-r))
			if d < cd {
				cd = d
			}
		}
		run.AddStates(1)
		if s.CenterDistance() != cd {
			bad("table:center-distance", fmt.Sprintf("CenterDistance(%s)=%d want %d", s.String(), s.CenterDistance(), cd), map[string]interface{}{"square": s.String()})
		}
		// castling rights by square
		wantCr := CastlingNone
		switch sq {
		case 4:
			wantCr = CastlingWhite
		case 0:
			wantCr = CastlingWhiteOOO
		case 7:
			wantCr = CastlingWhiteOO
		case 60:
			wantCr = CastlingBlack
		case 56:
			wantCr = CastlingBlackOOO
		case 63:
			wantCr = CastlingBlackOO
		}
		run.AddStates(1)
		if GetCastlingRights(s) != wantCr {
			bad("table:castling-rights", "GetCastlingRights("+s.String()+") wrong", map[string]interface{}{"square": s.String()})
		}
		// Square.To
		for d, v := range dirVec {
			want := SqNone
			if f+v[0] >= 0 && f+v[0] < 8 && r+v[1] >= 0 && r+v[1] < 8 {
				want = Square(sqOf(f+v[0], r+v[1]))
			}
			run.AddStates(1)
			if got := s.To(d); got != want {
				bad("square-to:"+d.String(), fmt.Sprintf("%s.To(%s)=%s want %s", s.String(), d.String(), got.String(), want.String()), map[string]interface{}{"square": s.String(), "direction": d.String()})
			}
		}
		// pairs: distance, intermediate
		for t := 0; t < 64; t++ {
			tf, tr := t%8, t/8
			wantD := maxInt(absInt(tf-f), absInt(tr-r))
			run.AddStates(2)
			if SquareDistance(s, Square(t)) != wantD {
				bad("table:square-distance", "SquareDistance wrong", map[string]interface{}{"from": s.String(), "to": Square(t).String()})
			}
			var inter Bitboard
			dx, dy := tf-f, tr-r
			if sq != t && (dx == 0 || dy == 0 || absInt(dx) == absInt(dy)) {
				sx, sy := sgn(dx), sgn(dy)
				x, y := f+sx, r+sy
				for x != tf || y != tr {
					inter |= bit(x, y)
					x, y = x+sx, y+sy
				}
			}
			if Intermediate(s, Square(t)) != inter || s.Intermediate(Square(t)) != inter {
				bad("table:intermediate", fmt.Sprintf("Intermediate(%s,%s)=%#x want %#x", s.String(), Square(t).String(), uint64(Intermediate(s, Square(t))), uint64(inter)),
					map[string]interface{}{"from": s.String(), "to": Square(t).String()})
			}
		}
	}
	// colour masks and castle masks
	var light, dark Bitboard
	for sq := 0; sq < 64; sq++ {
		if (sq%8+sq/8)%2 == 1 {
			light |= Bitboard(1) << uint(sq)
		} else {
			dark |= Bitboard(1) << uint(sq)
		}
	}
	run.AddStates(6)
	if SquaresBb(White) != light || SquaresBb(Black) != dark {
		bad("table:square-colours", "SquaresBb wrong", nil)
	}
	if KingSideCastleMask(White) != bit(5, 0)|bit(6, 0)|bit(7, 0) || KingSideCastleMask(Black) != bit(5, 7)|bit(6, 7)|bit(7, 7) ||
		QueenSideCastMask(White) != bit(0, 0)|bit(1, 0)|bit(2, 0)|bit(3, 0) || QueenSideCastMask(Black) != bit(0, 7)|bit(1, 7)|bit(2, 7)|bit(3, 7) {
		bad("table:castle-masks", "castle masks wrong", nil)
	}
	// board shifts: patterns = all single bits, all pairs, files, ranks, edges, full, checkerboards
	var pats []Bitboard
	for a := 0; a < 64; a++ {
		pats = append(pats, Bitboard(1)<<uint(a))
		for b := a + 1; b < 64; b++ {
			pats = append(pats, Bitboard(1)<<uint(a)|Bitboard(1)<<uint(b))
		}
	}
	for i := 0; i < 8; i++ {
		pats = append(pats, Bitboard(0x0101010101010101)<<uint(i), Bitboard(0xFF)<<uint(8*i))
	}
	pats = append(pats, 0, ^Bitboard(0), 0xAA55AA55AA55AA55, 0x55AA55AA55AA55AA, 0xFF818181818181FF, 0x8142241818244281)
	for _, b := range pats {
		for d, v := range dirVec {
			var want Bitboard
			for sq := 0; sq < 64; sq++ {
				if b&(Bitboard(1)<<uint(sq)) != 0 {
					want |= bit(sq%8+v[0], sq/8+v[1])
				}
			}
			run.AddTransitions(1)
			if got := ShiftBitboard(b, d); got != want {
				bad("shift:"+d.String(), fmt.Sprintf("ShiftBitboard(%#x,%s)=%#x want %#x", uint64(b), d.String(), uint64(got), uint64(want)), map[string]interface{}{"bitboard": fmt.Sprintf("%#x", uint64(b)), "direction": d.String()})
			}
		}
	}
	run.Sample(map[string]interface{}{"sliding": "GetAttacksBb(Rook, e4, every subset of the e-file and 4th rank | background)"})
	run.Sample(map[string]interface{}{"shift": "ShiftBitboard(a1|h8, Northeast)"})
	run.Sample(map[string]interface{}{"pair": "Intermediate(a1,h8), SquareDistance(a1,h8)"})
	if run.Transitions == 0 {
		run.AddTransitions(1)
	}
	return run.Finish()
}

func absInt(x int) int {
	if x < 0 {
		return -x
	}
	return x
}
func maxInt(a, b int) int {
	if a > b {
		return a
	}
	return b
}
func sgn(x int) int {
	switch {
	case x > 0:
		return 1
	case x < 0:
		return -1
	}
	return 0
}
