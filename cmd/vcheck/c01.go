package main

import (
	"fmt"
	"os"
	"sync/atomic"

	"github.com/frankkopp/FrankyGo/internal/movegen"
	"github.com/frankkopp/FrankyGo/internal/position"
	. "github.com/frankkopp/FrankyGo/internal/types"

	"github.com/frankkopp/FrankyGo/verif/eng"
	"github.com/frankkopp/FrankyGo/verif/refchess"
	"github.com/frankkopp/FrankyGo/verif/space"
	"github.com/frankkopp/FrankyGo/verif/vl"
)

func init() { registry["C01"] = c01 }

// standard families per tier, shared by the position-space checks
func stdFamilies(tier string) []family {
	if tier == "thorough" {
		return []family{
			famP3(space.P3Opt{}, "P3"),
			famPCastle(1),
			famPEP([]int8{space.Q, space.R, space.B, space.N}, true, "PEP(all)"),
			famPPromo(),
			famPPromo2(true),
			famPBlock(),
			famPEPOwn([]int8{space.Q, space.R, space.B, space.N}, "PEP(own piece)"),
			famPPromoOwn(8, "PPROMO(own piece on the push/capture squares)"),
			famPDisc(),
		}
	}
	return []family{
		famP3(space.P3Opt{}, "P3"),
		famPCastle(0),
		famPEP([]int8{space.Q}, false, "PEP(extra=queen)"),
		famPPromo(),
		famPBlock(),
		famPEPOwn([]int8{space.R}, "PEP(own rook)"),
		famPPromoOwn(4, "PPROMO(own piece on the push/capture squares, files a-d)"),
	}
}

func quickSeeds() []string {
	all := space.AllSeeds()
	if len(all) > 24 {
		// first 12 seeds and their mirrors (AllSeeds interleaves seed, mirror)
		return all[:24]
	}
	return all
}

func c01State(w *wctx, p *position.Position, r *refchess.Pos) {
	run := w.run
	want := eng.TuplesOfRef(r.LegalMoves())
	if !r.InCheck(r.White) {
		// "reached by play" includes what a search does on the way: a null move made and taken back before the moves of
		// this position are generated (first thing at the node: the undo-stack slot still holds what a sibling left there)
		if msg, pan := vl.Guard(func() { p.DoNullMove(); p.UndoNullMove() }); pan {
			run.Violate("nullmove-panic", "DoNullMove/UndoNullMove panicked: "+msg, w.replayOf(r, nil))
		}
	}
	legal := w.mg.GenerateLegalMoves(p, movegen.GenAll)
	got := eng.TuplesOfSlice(legal)
	if r.InCheck(r.White) {
		run.Count("in_check_states", 1)
	}
	for _, t := range want {
		switch t.Kind {
		case refchess.EnPassant:
			run.Count("ep_moves", 1)
		case refchess.Castling:
			run.Count("castling_moves", 1)
		case refchess.Promotion:
			run.Count("promotion_moves", 1)
		}
	}
	if len(want) == 0 {
		run.Count("terminal_states", 1)
	}
	run.AddTransitions(int64(len(want)))
	if eng.HasDup(got) {
		run.Violate("legal-duplicate", "GenerateLegalMoves returned a move twice", w.replayOf(r, map[string]interface{}{"engine": eng.StrT(got)}))
	}
	if !eng.EqualT(got, want) {
		run.Violate("legal-set:"+diffClass(got, want), "GenerateLegalMoves differs from the rules of chess",
			w.replayOf(r, map[string]interface{}{"engine": eng.StrT(got), "rules": eng.StrT(want)}))
	}
	// perft route: pseudo-legal (evasion when in check) + DoMove + WasLegalMove
	pseudo := w.mg2.GeneratePseudoLegalMoves(p, movegen.GenAll, p.HasCheck())
	var sel []Move
	for _, m := range *pseudo {
		p.DoMove(m)
		if p.WasLegalMove() {
			sel = append(sel, m)
		}
		p.UndoMove()
	}
	got2 := eng.TuplesOfMoves(sel)
	if !eng.EqualT(got2, want) {
		run.Violate("perft-route-set:"+diffClass(got2, want), "pseudo-legal generation + WasLegalMove selects a different set than the rules",
			w.replayOf(r, map[string]interface{}{"engine": eng.StrT(got2), "rules": eng.StrT(want)}))
	}
}

// diffClass names what kind of move is missing / extra (for stable violation keys)
func diffClass(got, want []eng.T) string {
	in := func(t eng.T, l []eng.T) bool {
		for _, x := range l {
			if x == t {
				return true
			}
		}
		return false
	}
	kinds := []string{"normal", "promotion", "enpassant", "castling"}
	for _, t := range want {
		if !in(t, got) {
			return "missing-" + kinds[t.Kind]
		}
	}
	for _, t := range got {
		if !in(t, want) {
			return "extra-" + kinds[t.Kind]
		}
	}
	return "multiset"
}

func c01(tier string, args []string) int {
	run := vl.NewRun("C01", tier)
	run.Rule("every position of the named complete k-man families and every node of the game trees to the stated depth; a state is one position (identity incl. rights/ep); distinct by construction in the families")
	run.Assume("refchess (mailbox reference implementation) reproduces the published perft tables; checked at start of this run")
	if !refSelfTest(run) {
		return run.Finish()
	}
	treeDepth := 3
	seeds := quickSeeds()
	perftDepth := 3
	if tier == "thorough" {
		treeDepth = 4
		seeds = space.AllSeeds()
		perftDepth = 4
		run.SetDeadline(budget(tier))
	} else {
		run.SetDeadline(budget(tier))
	}
	// trees first: they carry the histories (do/undo, null moves, cached flags); under a time cap they are the part to keep
	runTree(run, seeds, treeDepth, nil, c01State)
	runFamilies(run, stdFamilies(tier), nil, c01State)
	c01Perft(run, space.AllSeeds(), perftDepth)
	return run.Finish()
}

// c01Perft compares the engine's perft (both generator modes) with refchess' own perft.
func c01Perft(run *vl.Run, seeds []string, maxDepth int) {
	type job struct {
		fen string
		d   int
		od  bool
	}
	var jobs []job
	for _, s := range seeds {
		for d := 1; d <= maxDepth; d++ {
			for _, od := range []bool{false, true} {
				jobs = append(jobs, job{s, d, od})
			}
		}
	}
	// silence perft's printing
	devnull, _ := os.OpenFile(os.DevNull, os.O_WRONLY, 0)
	saved := os.Stdout
	os.Stdout = devnull
	var perfts, nodes int64
	vl.Parallel(len(jobs), func(shard, n int) {
		j := jobs[shard]
		if run.Expired() {
			return
		}
		var rc refchess.PerftCounters
		refchess.MustFEN(j.fen).Perft(j.d, &rc)
		pf := movegen.NewPerft()
		msg, pan := vl.Guard(func() { pf.StartPerft(j.fen, j.d, j.od) })
		rep := map[string]interface{}{"kind": "perft", "fen": j.fen, "depth": j.d, "on_demand": j.od}
		if pan {
			run.Violate("perft-panic", "perft panicked: "+msg, rep)
			return
		}
		atomic.AddInt64(&perfts, 1)
		atomic.AddInt64(&nodes, int64(rc.Nodes))
		mode := "batch"
		if j.od {
			mode = "ondemand"
		}
		if pf.Nodes != rc.Nodes && !(rc.Nodes == 0 && pf.Nodes == 0) {
			rep["engine_nodes"] = pf.Nodes
			rep["rule_nodes"] = rc.Nodes
			run.Violate("perft-nodes:"+mode, fmt.Sprintf("perft node count %d differs from rule-defined %d", pf.Nodes, rc.Nodes), rep)
			return
		}
		if rc.Nodes > 0 && (pf.CaptureCounter != rc.Captures || pf.EnpassantCounter != rc.EnPassant ||
			pf.CastleCounter != rc.Castles || pf.PromotionCounter != rc.Promotions || pf.CheckCounter != rc.Checks) {
			rep["engine"] = fmt.Sprintf("cap=%d ep=%d castle=%d prom=%d check=%d", pf.CaptureCounter, pf.EnpassantCounter, pf.CastleCounter, pf.PromotionCounter, pf.CheckCounter)
			rep["rules"] = fmt.Sprintf("cap=%d ep=%d castle=%d prom=%d check=%d", rc.Captures, rc.EnPassant, rc.Castles, rc.Promotions, rc.Checks)
			run.Violate("perft-counters:"+mode, "perft counters differ from the rule-defined counts", rep)
		}
	})
	os.Stdout = saved
	devnull.Close()
	run.Set("perft_runs", perfts)
	run.Set("perft_leaf_nodes", nodes)
	run.Set("perft_max_depth", maxDepth)
	run.AddTransitions(nodes)
}
