package main

import (
	"fmt"

	"github.com/frankkopp/FrankyGo/internal/attacks"
	"github.com/frankkopp/FrankyGo/internal/movegen"
	"github.com/frankkopp/FrankyGo/internal/position"
	. "github.com/frankkopp/FrankyGo/internal/types"

	"github.com/frankkopp/FrankyGo/verif/eng"
	"github.com/frankkopp/FrankyGo/verif/refchess"
	"github.com/frankkopp/FrankyGo/verif/space"
	"github.com/frankkopp/FrankyGo/verif/vl"
)

func init() { registry["C09"] = c09 }

func bbOf(sqs []int) Bitboard {
	var b Bitboard
	for _, s := range sqs {
		b |= Square(s).Bb()
	}
	return b
}

// epConvention returns (pushed pawn square, capturer colour is white, capturers present) when the
// position has an en-passant target with a pushed pawn in front of it; ok=false otherwise.
func epConvention(r *refchess.Pos) (pawnSq int, capWhite bool, hasCapturer bool, ok bool) {
	if r.EP < 0 {
		return
	}
	// the pushed pawn stands one step beyond the target, seen from the pusher
	if r.EP/8 == 5 && r.B[r.EP-8] == -refchess.Pawn { // black pushed, white captures
		pawnSq, capWhite, ok = r.EP-8, true, true
	} else if r.EP/8 == 2 && r.B[r.EP+8] == refchess.Pawn {
		pawnSq, capWhite, ok = r.EP+8, false, true
	} else {
		return
	}
	cp := int8(refchess.Pawn)
	if !capWhite {
		cp = -refchess.Pawn
	}
	f := pawnSq % 8
	if f > 0 && r.B[pawnSq-1] == cp {
		hasCapturer = true
	}
	if f < 7 && r.B[pawnSq+1] == cp {
		hasCapturer = true
	}
	return
}

func c09State(w *wctx, p *position.Position, r *refchess.Pos) {
	run := w.run
	// in-check test, twice (cache)
	want := r.InCheck(r.White)
	for i := 0; i < 2; i++ {
		if got := p.HasCheck(); got != want {
			run.Violate(fmt.Sprintf("hascheck:call%d", i+1), fmt.Sprintf("HasCheck()=%v but the king is attacked=%v", got, want), w.replayOf(r, nil))
		}
	}
	if want {
		run.Count("in_check_states", 1)
	} else {
		// the cached answer through a null move and back (as the search makes it: only when not in check). Done before
		// any move is made from this state, so that the undo-stack slot still holds what an earlier sibling left there.
		msg, pan := vl.Guard(func() {
			p.DoNullMove()
			n := r.Clone()
			n.White, n.EP = !r.White, -1
			if got, wantN := p.HasCheck(), n.InCheck(n.White); got != wantN {
				run.Violate("hascheck:after-null-move", fmt.Sprintf("after a null move HasCheck()=%v but the king is attacked=%v", got, wantN), w.replayOf(r, nil))
			}
			p.UndoNullMove()
			if got := p.HasCheck(); got != want {
				run.Violate("hascheck:after-null-move-undone", fmt.Sprintf("after DoNullMove/UndoNullMove HasCheck()=%v but the king is attacked=%v", got, want), w.replayOf(r, nil))
			}
		})
		if pan {
			run.Violate("nullmove-panic", "DoNullMove/UndoNullMove panicked: "+msg, w.replayOf(r, nil))
		}
		run.Count("null_move_excursions", 1)
	}
	// attack queries for every square and colour
	pawnSq, capWhite, hasCap, epOK := epConvention(r)
	if epOK {
		run.Count("ep_states", 1)
		if pawnSq%8 == 0 || pawnSq%8 == 7 {
			run.Count("ep_states_on_edge_file", 1)
		}
	}
	for sq := 0; sq < 64; sq++ {
		for _, white := range []bool{true, false} {
			col := White
			if !white {
				col = Black
			}
			att := r.Attackers(sq, white)
			wantBb := bbOf(att)
			wantAtt := len(att) > 0
			if epOK && hasCap && white == capWhite {
				if sq == r.EP {
					wantBb |= Square(pawnSq).Bb() // convention 2
				}
				if sq == pawnSq {
					wantAtt = true // convention 1
				}
			}
			run.AddEvals(2)
			var got Bitboard
			msg, pan := vl.Guard(func() { got = attacks.AttacksTo(p, Square(sq), col) })
			if pan {
				run.Violate("attacksto-panic", "AttacksTo panicked: "+msg, w.replayOf(r, map[string]interface{}{"square": refchess.SqName(sq), "by_white": white}))
			} else if got != wantBb {
				cls := "attacksto"
				if r.EP >= 0 && sq == r.EP {
					cls = "attacksto:on-ep-target"
					if epOK && white != capWhite {
						cls = "attacksto:on-ep-target:for-pushing-side"
					}
				}
				run.Violate(cls, fmt.Sprintf("AttacksTo(%s,%v)=%#x want %#x", refchess.SqName(sq), col, uint64(got), uint64(wantBb)),
					w.replayOf(r, map[string]interface{}{"square": refchess.SqName(sq), "by_white": white}))
			}
			var gotA bool
			msg, pan = vl.Guard(func() { gotA = p.IsAttacked(Square(sq), col) })
			if pan {
				cls := "isattacked-panic"
				if epOK && sq == pawnSq && (sq%8 == 0 || sq%8 == 7) {
					cls = "isattacked-panic:ep-pawn-on-edge-file"
				}
				run.Violate(cls, "IsAttacked panicked: "+msg, w.replayOf(r, map[string]interface{}{"square": refchess.SqName(sq), "by_white": white}))
			} else if gotA != wantAtt {
				cls := "isattacked"
				if epOK && sq == pawnSq {
					cls = "isattacked:ep-pawn"
				}
				run.Violate(cls, fmt.Sprintf("IsAttacked(%s,%v)=%v want %v", refchess.SqName(sq), col, gotA, wantAtt),
					w.replayOf(r, map[string]interface{}{"square": refchess.SqName(sq), "by_white": white}))
			}
		}
	}
	// move predicates over all pseudo-legal moves
	legalRef := map[eng.T]bool{}
	for _, m := range r.LegalMoves() {
		legalRef[eng.TupleOfRef(m)] = true
	}
	pseudoRef := map[eng.T]bool{}
	for _, m := range r.PseudoMoves() {
		pseudoRef[eng.TupleOfRef(m)] = true
	}
	pseudo := append([]Move{}, (*w.mg.GeneratePseudoLegalMoves(p, movegen.GenAll, false))...)
	for _, m := range pseudo {
		t := eng.TupleOfEng(m)
		rep := map[string]interface{}{"move": m.StringUci()}
		run.AddTransitions(1)
		var gc, pre, post, hcAfter bool
		msg, pan := vl.Guard(func() { gc = p.GivesCheck(m) })
		if pan {
			run.Violate("givescheck-panic", "GivesCheck panicked: "+msg, w.replayOf(r, rep))
		}
		msg, pan = vl.Guard(func() {
			pre = p.IsLegalMove(m)
			p.DoMove(m)
			post = p.WasLegalMove()
			hcAfter = p.HasCheck() // the in-check test on the position as reached by this move (cache set or cleared by DoMove)
			p.UndoMove()
		})
		if pan {
			run.Violate("legality-panic", "IsLegalMove/WasLegalMove panicked: "+msg, w.replayOf(r, rep))
			continue
		}
		// the post-move test on a position object on which nothing was asked before the move (set up from FEN, as a GUI
		// hands it over): for castling moves and for every move of a position in check
		if t.Kind == refchess.Castling || want {
			if fp, err := position.NewPositionFen(r.FEN()); err == nil && pseudoRef[t] {
				var post2 bool
				if msg, pan := vl.Guard(func() { fp.DoMove(m); post2 = fp.WasLegalMove() }); pan {
					run.Violate("legality-panic", "DoMove/WasLegalMove on a fresh position panicked: "+msg, w.replayOf(r, rep))
				} else if post2 != legalRef[t] {
					run.Violate("waslegal-unprimed-vs-rules:"+kindNames[t.Kind], fmt.Sprintf("position set up from FEN, DoMove, WasLegalMove=%v but rules say legal=%v", post2, legalRef[t]), w.replayOf(r, rep))
				}
				run.AddEvals(1)
			}
		}
		if pre != post {
			run.Violate("islegal-vs-waslegal:"+kindNames[t.Kind], fmt.Sprintf("IsLegalMove=%v but WasLegalMove=%v", pre, post), w.replayOf(r, rep))
		}
		if !pseudoRef[t] {
			continue // not pseudo-legal by the rules: reported by C08/C01, nothing to compare here
		}
		if pre != legalRef[t] {
			run.Violate("islegal-vs-rules:"+kindNames[t.Kind], fmt.Sprintf("IsLegalMove=%v but rules say legal=%v", pre, legalRef[t]), w.replayOf(r, rep))
		}
		if post != legalRef[t] {
			run.Violate("waslegal-vs-rules:"+kindNames[t.Kind], fmt.Sprintf("WasLegalMove=%v but rules say legal=%v", post, legalRef[t]), w.replayOf(r, rep))
		}
		if legalRef[t] {
			q := r.Make(eng.RefMove(m))
			wantGc := q.InCheck(q.White)
			if wantGc {
				run.Count("checking_moves", 1)
			}
			if gc != wantGc {
				run.Violate("givescheck:"+kindNames[t.Kind], fmt.Sprintf("GivesCheck=%v but opponent in check after the move=%v", gc, wantGc), w.replayOf(r, rep))
			}
			if hcAfter != wantGc {
				run.Violate("hascheck-after-move:"+kindNames[t.Kind], fmt.Sprintf("HasCheck()=%v on the position reached by the move but the king is attacked=%v", hcAfter, wantGc), w.replayOf(r, rep))
			}
		}
	}
}

func c09(tier string, args []string) int {
	run := vl.NewRun("C09", tier)
	run.Rule("every state of the families/trees x 64 squares x 2 colours (AttacksTo, IsAttacked, each under recover) x every pseudo-legal move (GivesCheck, IsLegalMove, WasLegalMove) against refchess plus exactly the two en-passant conventions of the statement")
	refSelfTest(run)
	run.SetDeadline(budget(tier))
	depth, seeds := 2, quickSeeds()
	fams := []family{
		famP3(space.P3Opt{Quadrant: true}, "P3(extra piece in a1-d4)"),
		famPCastle(0),
		famPEP([]int8{space.Q}, false, "PEP(extra=queen)"),
		famPEPOwn([]int8{space.R}, "PEP(own rook)"),
	}
	if tier == "thorough" {
		depth, seeds = 3, space.AllSeeds()
		fams = append(stdFamilies(tier), famPEPOwn([]int8{space.Q, space.R, space.B, space.N}, "PEP(own piece)"), famPEP([]int8{space.P}, false, "PEP(extra=enemy pawn)"))
	}
	// trees first: they carry the histories (do/undo, null moves, cached flags); under a time cap they are the part to keep
	runTree(run, seeds, depth, nil, c09State)
	runFamilies(run, fams, nil, c09State)
	return run.Finish()
}
