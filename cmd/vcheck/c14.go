package main

import (
	"fmt"
	"os"
	"sort"
	"strings"
	"time"

	"github.com/frankkopp/FrankyGo/internal/config"
	"github.com/frankkopp/FrankyGo/internal/moveslice"
	"github.com/frankkopp/FrankyGo/internal/position"
	"github.com/frankkopp/FrankyGo/internal/search"
	. "github.com/frankkopp/FrankyGo/internal/types"

	"github.com/frankkopp/FrankyGo/verif/refchess"
	"github.com/frankkopp/FrankyGo/verif/sched"
	"github.com/frankkopp/FrankyGo/verif/vl"
)

func init() { registry["C14"] = c14 }

// mockDriver implements uciInterface.UciDriver and records what the search sends, stamped with the
// virtual clock and the sending thread.
type mockDriver struct{}

func (m *mockDriver) SendReadyOk()               { sched.Record("readyok", "") }
func (m *mockDriver) SendInfoString(info string) { sched.Record("info", info) }
func (m *mockDriver) SendIterationEndInfo(depth int, seldepth int, value Value, nodes uint64, nps uint64, t time.Duration, pv moveslice.MoveSlice) {
	sched.Record("iteration", fmt.Sprintf("depth %d pv %s", depth, pv.StringUci()))
}
func (m *mockDriver) SendAspirationResearchInfo(depth int, seldepth int, value Value, bound string, nodes uint64, nps uint64, t time.Duration, pv moveslice.MoveSlice) {
}
func (m *mockDriver) SendCurrentRootMove(currMove Move, moveNumber int) {}
func (m *mockDriver) SendSearchUpdate(depth int, seldepth int, nodes uint64, nps uint64, t time.Duration, hashfull int) {
}
func (m *mockDriver) SendCurrentLine(moveList moveslice.MoveSlice) {}
func (m *mockDriver) SendResult(bestMove Move, ponderMove Move) {
	sched.Record("result", bestMove.StringUci())
}

// lifecycle positions: tiny, pairwise disjoint legal move sets so that a result identifies its search
var lcFens = map[string]string{
	"A": "8/8/8/8/8/8/4k3/K7 w - - 0 1",
	"B": "7k/8/8/8/8/8/8/K7 b - - 0 1",
	"C": "k7/8/8/8/8/8/8/7K w - - 0 1",
}

type lcOp struct {
	name string
	// model
	start    string // position letter if this is a start
	infinite bool
	ponder   bool
	stops    bool // StopSearch / NewGame
	waits    bool // WaitWhileSearching
	hit      bool // PonderHit
	idle     time.Duration
}

var lcOps = []lcOp{
	{name: "Start(A,infinite)", start: "A", infinite: true},
	{name: "Start(B,movetime 25ms)", start: "B"},
	{name: "Start(C,ponder,wtime 300ms)", start: "C", ponder: true},
	{name: "Stop", stops: true},
	{name: "Wait", waits: true},
	{name: "IsSearching"},
	{name: "PonderHit", hit: true},
	{name: "NewGame", stops: true},
	{name: "ClearHash"},
	{name: "ResizeCache"},
	{name: "IsReady"},
	{name: "Idle(1ms)", idle: time.Millisecond},
	{name: "Idle(20ms)", idle: 20 * time.Millisecond},
}

// lcPrograms enumerates every call sequence up to the given length, excluding only programs the
// protocol loop cannot produce: Wait while an infinite (or un-hit ponder) search has not been stopped.
func lcPrograms(maxLen int) [][]int {
	var res [][]int
	// open: 0 = no search that waits for a stop, 1 = infinite search open, 2 = ponder search open
	var gen func(cur []int, open int)
	gen = func(cur []int, open int) {
		if len(cur) > 0 {
			res = append(res, append([]int{}, cur...))
		}
		if len(cur) == maxLen {
			return
		}
		for i, o := range lcOps {
			no := open
			switch {
			case o.waits && open != 0:
				continue // would wait for ever by design
			case o.start != "" && open == 0:
				switch {
				case o.infinite:
					no = 1
				case o.ponder:
					no = 2
				}
			case o.stops:
				no = 0
			case o.hit && open == 2:
				no = 0 // after ponderhit the search ends by its clock budget
			}
			gen(append(cur, i), no)
		}
	}
	gen(nil, 0)
	return res
}

func lcName(prog []int) string {
	var s []string
	for _, i := range prog {
		s = append(s, lcOps[i].name)
	}
	return strings.Join(s, "; ")
}

// lcBody returns the controller body for a program (closed with Stop; Wait).
func lcBody(prog []int) func() {
	return func() {
		config.Settings.Search.UseBook = false
		config.Settings.Search.TTSize = 1
		s := search.NewSearch()
		s.SetUciHandler(&mockDriver{})
		pos := map[string]*position.Position{}
		for k, f := range lcFens {
			pos[k], _ = position.NewPositionFen(f)
		}
		call := func(name string, f func()) {
			sched.Record("call", name)
			f()
			sched.Record("return", name)
		}
		for _, i := range prog {
			o := lcOps[i]
			switch {
			case o.start != "":
				busy := s.IsSearching()
				sched.Record("start", fmt.Sprintf("%s busy=%v", o.start, busy))
				var sl search.Limits
				switch {
				case o.infinite:
					sl = search.Limits{Infinite: true, Depth: 1}
				case o.ponder:
					sl = search.Limits{Ponder: true, TimeControl: true, WhiteTime: 300 * time.Millisecond, BlackTime: 300 * time.Millisecond, Depth: 1}
				default:
					sl = search.Limits{TimeControl: true, MoveTime: 25 * time.Millisecond, Depth: 1}
				}
				call(o.name, func() { s.StartSearch(*pos[o.start], sl) })
			case o.name == "Stop":
				sched.Record("stop", "")
				call(o.name, s.StopSearch)
			case o.name == "Wait":
				call(o.name, s.WaitWhileSearching)
			case o.name == "IsSearching":
				call(o.name, func() { s.IsSearching() })
			case o.name == "PonderHit":
				sched.Record("ponderhit", "")
				call(o.name, s.PonderHit)
			case o.name == "NewGame":
				sched.Record("stop", "")
				call(o.name, s.NewGame)
			case o.name == "ClearHash":
				call(o.name, s.ClearHash)
			case o.name == "ResizeCache":
				call(o.name, s.ResizeCache)
			case o.name == "IsReady":
				call(o.name, s.IsReady)
			case o.idle > 0:
				sched.Sleep(o.idle)
			}
		}
		sched.Record("stop", "")
		call("Stop", s.StopSearch)
		call("Wait", s.WaitWhileSearching)
		sched.Record("end", "")
	}
}

var lcLegal = map[string]map[string]bool{}

func init() {
	for k, f := range lcFens {
		lcLegal[k] = map[string]bool{}
		for _, m := range refchess.MustFEN(f).LegalMoves() {
			lcLegal[k][m.UciUpper()] = true
		}
	}
}

type lcVerdict struct {
	key, what string
}

// lcCheck is the oracle for one execution.
func lcCheck(prog []int, x *sched.Exec) []lcVerdict {
	var v []lcVerdict
	switch x.Verdict {
	case "deadlock":
		key := "deadlock"
		last := ""
		for _, e := range x.Events {
			if e.Name == "call" {
				last = e.Arg
			}
			if e.Name == "return" {
				last = ""
			}
		}
		if strings.HasPrefix(last, "Start") {
			key = "deadlock:controller-blocked-in-start"
			running := false
			for _, e := range x.Events {
				if e.Name == "start" && strings.Contains(e.Arg, "busy=true") {
					running = true
				}
			}
			if running {
				key = "deadlock:start-while-running"
			}
		} else if last != "" {
			key = "deadlock:controller-blocked-in-" + strings.SplitN(last, "(", 2)[0]
		}
		v = append(v, lcVerdict{key, "deadlock: " + x.Detail})
	case "horizon":
		key := "hang"
		last, busy := "", false
		for _, e := range x.Events {
			if e.Name == "call" {
				last = e.Arg
			}
			if e.Name == "return" {
				last = ""
			}
			if e.Name == "start" {
				busy = strings.Contains(e.Arg, "busy=true")
			}
		}
		if strings.HasPrefix(last, "Start") && busy {
			key = "deadlock:start-while-running"
		} else if last != "" {
			key = "hang:controller-blocked-in-" + strings.SplitN(last, "(", 2)[0]
		}
		v = append(v, lcVerdict{key, "execution does not finish: " + x.Detail})
	case "panic":
		v = append(v, lcVerdict{"panic", x.Detail})
	case "divergence":
		v = append(v, lcVerdict{"INFRA:divergence", x.Detail})
	}
	names := make([]string, 0, len(x.Races))
	for n := range x.Races {
		names = append(names, n)
	}
	sort.Strings(names)
	for _, n := range names {
		r := x.Races[n]
		v = append(v, lcVerdict{"race:" + n, fmt.Sprintf("data race (%s) on %s between %s and %s", r.Kind, n, r.First, r.Other)})
	}
	if x.Verdict != "" {
		return v
	}
	// results vs starts
	type st struct {
		pos      string
		busy     bool
		idx      int // event index of the start
		infinite bool
		ponder   bool
		results  int
	}
	var starts []*st
	pi := 0
	for ei, e := range x.Events {
		if e.Name == "start" {
			// find the op
			for pi < len(prog) && lcOps[prog[pi]].start == "" {
				pi++
			}
			o := lcOps[prog[pi]]
			pi++
			starts = append(starts, &st{pos: o.start, busy: strings.Contains(e.Arg, "busy=true"), idx: ei, infinite: o.infinite, ponder: o.ponder})
		}
	}
	lastResultStart := -1
	for ei, e := range x.Events {
		if e.Name != "result" {
			continue
		}
		// which start does it belong to? the latest start before it whose position has this move and that has no result yet
		owner := -1
		for _, wantBusy := range []bool{false, true} { // a start issued while no search ran must get a result: serve those first
			for si, s := range starts {
				if owner < 0 && s.busy == wantBusy && s.idx < ei && lcLegal[s.pos][e.Arg] && s.results == 0 {
					owner = si
				}
			}
		}
		if owner < 0 {
			v = append(v, lcVerdict{"result:foreign", fmt.Sprintf("result %q does not belong to any started search without a result", e.Arg)})
			continue
		}
		s := starts[owner]
		s.results++
		if owner < lastResultStart {
			v = append(v, lcVerdict{"result:out-of-order", "results delivered in a different order than the searches were started"})
		}
		lastResultStart = owner
		if s.infinite || s.ponder {
			// not before a stop (or ponderhit) issued after its start
			ok := false
			for _, e2 := range x.Events[s.idx:ei] {
				if e2.Name == "stop" || (s.ponder && e2.Name == "ponderhit") {
					ok = true
				}
			}
			if !ok {
				mode := "infinite"
				if s.ponder {
					mode = "ponder"
				}
				// what ended it? a leftover timer of an earlier time-controlled search is the known mechanism
				key := "early-end:" + mode + "-search-answered-before-stop"
				for _, p := range starts[:owner] {
					if !p.infinite { // an earlier time-controlled search (movetime, or ponder with clock) leaves a timer thread behind
						key = "early-end:leftover-timer-of-earlier-search"
					}
				}
				v = append(v, lcVerdict{key, fmt.Sprintf("%s search on %s delivered its result at t=%v although no stop was issued after its start", mode, s.pos, e.T)})
			}
		}
	}
	for _, s := range starts {
		if !s.busy && s.results != 1 {
			v = append(v, lcVerdict{"result:missing", fmt.Sprintf("search on %s was started while no search was running but delivered %d results", s.pos, s.results)})
		}
		if s.results > 1 {
			v = append(v, lcVerdict{"result:duplicate", fmt.Sprintf("search on %s delivered %d results", s.pos, s.results)})
		}
	}
	return v
}

func c14(tier string, args []string) int {
	run := vl.NewRun("C14", tier)
	if !sched.IsInstrumented("search") {
		fmt.Fprintln(os.Stderr, "C14 needs the instrumented build (bin/build-sched)")
		return 2
	}
	run.Rule("controller programs = every sequence of lifecycle calls up to the stated length (closed with Stop;Wait), each explored over all schedules of controller / search / timer threads within the deviation bound (preemptions and early clock ticks) by stateless DFS on the real search.go under a cooperative scheduler with virtual time; oracle: scheduler verdicts (deadlock, hang, panic), result sequence vs start sequence, vector-clock data-race detection on all instrumented shared fields")
	run.Assume("sequentially consistent memory; weaker orders are covered only through the race verdict")
	maxLen, bound := 3, 1
	if tier == "thorough" {
		maxLen, bound = 3, 2
	}
	progs := lcPrograms(maxLen)
	shard, n, worker := vl.WorkerShard()
	if !worker {
		run.Set("programs", len(progs))
		run.Set("max_program_length", maxLen)
		run.Set("deviation_bound", bound)
		return run.RunWorkers(16)
	}
	run.SetDeadline(budget(tier))
	outcomes := map[string]bool{}
	var execs, maxPoints int64
	capped := 0
	for pi, prog := range progs {
		if pi%n != shard {
			continue
		}
		if run.Expired() {
			break
		}
		body := lcBody(prog)
		ex := &sched.Explorer{Bound: bound, Body: body, MaxExec: 200000}
		ex.Check = func(x *sched.Exec) {
			run.AddTransitions(int64(x.Steps))
			var res []string
			for _, e := range x.Events {
				if e.Name == "result" {
					res = append(res, e.Arg)
				}
			}
			outcomes[x.Verdict+"|"+strings.Join(res, ",")] = true
			for _, vd := range lcCheck(prog, x) {
				if strings.HasPrefix(vd.key, "INFRA") {
					fmt.Fprintln(os.Stderr, "infrastructure error:", vd.what)
					os.Exit(2)
				}
				run.Violate(vd.key, vd.what, map[string]interface{}{"kind": "schedule", "program": lcName(prog), "ops": prog, "choices": x.Choices, "events": x.EventsString()})
			}
		}
		ex.Explore()
		execs += int64(ex.Executions)
		if int64(ex.MaxPoints) > maxPoints {
			maxPoints = int64(ex.MaxPoints)
		}
		if ex.Capped {
			capped++
			run.Cap(fmt.Sprintf("execution cap reached for some programs at bound %d", bound))
		}
		run.AddStates(1)
		if pi%97 == 0 {
			run.SampleCat("program", map[string]interface{}{"program": lcName(prog), "executions": ex.Executions, "max_choice_points": ex.MaxPoints})
		}
	}
	run.AddEvals(execs)
	run.Count("executions", execs)
	run.Count("programs_explored", run.States)
	run.Count("distinct_outcomes_per_worker_sum", int64(len(outcomes)))
	run.Set("shared_variables", sched.SharedVars())
	return run.FinishWorker()
}
