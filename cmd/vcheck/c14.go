package main

import (
	"fmt"
	"os"
	"sort"
	"strings"
	"time"

	"github.com/frankkopp/FrankyGo/internal/config"
	"github.com/frankkopp/FrankyGo/internal/moveslice"
	"github.com/frankkopp/FrankyGo/internal/position"
	"github.com/frankkopp/FrankyGo/internal/search"
	. "github.com/frankkopp/FrankyGo/internal/types"

	"github.com/frankkopp/FrankyGo/verif/refchess"
	"github.com/frankkopp/FrankyGo/verif/sched"
	"github.com/frankkopp/FrankyGo/verif/vl"
)

func init() { registry["C14"] = c14 }

// mockDriver implements uciInterface.UciDriver and records what the search sends, stamped with the
// virtual clock and the sending thread.
type mockDriver struct{}

func (m *mockDriver) SendReadyOk()               { sched.Record("readyok", "") }
func (m *mockDriver) SendInfoString(info string) { sched.Record("info", info) }
func (m *mockDriver) SendIterationEndInfo(depth int, seldepth int, value Value, nodes uint64, nps uint64, t time.Duration, pv moveslice.MoveSlice) {
	sched.Record("iteration", fmt.Sprintf("depth %d pv %s", depth, pv.StringUci()))
}
func (m *mockDriver) SendAspirationResearchInfo(depth int, seldepth int, value Value, bound string, nodes uint64, nps uint64, t time.Duration, pv moveslice.MoveSlice) {
}
func (m *mockDriver) SendCurrentRootMove(currMove Move, moveNumber int) {}
func (m *mockDriver) SendSearchUpdate(depth int, seldepth int, nodes uint64, nps uint64, t time.Duration, hashfull int) {
}
func (m *mockDriver) SendCurrentLine(moveList moveslice.MoveSlice) {}
func (m *mockDriver) SendResult(bestMove Move, ponderMove Move) {
	sched.Record("result", bestMove.StringUci())
	if ponderMove != MoveNone {
		sched.Record("ponder", ponderMove.MoveOf().StringUci())
	}
}

// lifecycle positions: tiny, pairwise disjoint legal move sets so that a result identifies its search
var lcFens = map[string]string{
	"A": "8/8/8/8/8/8/4k3/K7 w - - 0 1",
	"B": "7k/8/8/8/8/8/8/K7 b - - 0 1",
	"C": "k7/8/8/8/8/8/8/7K w - - 0 1",
	"D": "k7/7R/8/8/8/8/8/7K b - - 0 1", // exactly one legal move (a8b8): the search answers such roots after one iteration
}

type lcOp struct {
	name string
	// model
	start    string // position letter if this is a start
	infinite bool
	ponder   bool
	stops    bool // StopSearch / NewGame
	waits    bool // WaitWhileSearching
	hit      bool // PonderHit
	idle     time.Duration
	extra    bool // not enumerated by lcPrograms
}

var lcOps = []lcOp{
	{name: "Start(A,infinite)", start: "A", infinite: true},
	{name: "Start(B,movetime 65ms)", start: "B"}, // ends by itself (depth 1) long before its 45 ms budget
	{name: "Start(C,ponder,wtime 300ms)", start: "C", ponder: true},
	{name: "Start(D,infinite,single move)", start: "D", infinite: true},
	{name: "Stop", stops: true},
	{name: "Wait", waits: true},
	{name: "IsSearching"},
	{name: "PonderHit", hit: true},
	{name: "NewGame", stops: true},
	{name: "ClearHash"},
	{name: "ResizeCache"},
	{name: "IsReady"},
	{name: "Idle(1ms)", idle: time.Millisecond},
	{name: "Idle(20ms)", idle: 20 * time.Millisecond},
	// (the start-while-running sweep appends its own idle ops, marked extra: not part of the enumerated alphabet)
}

// lcPrograms enumerates every call sequence up to the given length, excluding only programs the
// protocol loop cannot produce: Wait while an infinite (or un-hit ponder) search has not been stopped.
func lcPrograms(maxLen int) [][]int {
	var res [][]int
	// open: 0 = no search that waits for a stop, 1 = infinite search open, 2 = ponder search open
	var gen func(cur []int, open int)
	gen = func(cur []int, open int) {
		if len(cur) > 0 {
			res = append(res, append([]int{}, cur...))
		}
		if len(cur) == maxLen {
			return
		}
		for i, o := range lcOps {
			if o.extra {
				continue
			}
			no := open
			switch {
			case o.waits && open != 0:
				continue // would wait for ever by design
			case o.start != "" && open == 0:
				switch {
				case o.infinite:
					no = 1
				case o.ponder:
					no = 2
				}
			case o.stops:
				no = 0
			case o.hit && open == 2:
				no = 0 // after ponderhit the search ends by its clock budget
			}
			gen(append(cur, i), no)
		}
	}
	gen(nil, 0)
	return res
}

func lcName(prog []int) string {
	var s []string
	for _, i := range prog {
		s = append(s, lcOps[i].name)
	}
	return strings.Join(s, "; ")
}

// lcBody returns the controller body for a program (closed with Stop; Wait).
func lcBody(prog []int) func() {
	return func() {
		config.Settings.Search.UseBook = false
		config.Settings.Search.TTSize = 1
		s := search.NewSearch()
		s.SetUciHandler(&mockDriver{})
		pos := map[string]*position.Position{}
		for k, f := range lcFens {
			pos[k], _ = position.NewPositionFen(f)
		}
		call := func(name string, f func()) {
			sched.Record("call", name)
			f()
			sched.Record("return", name)
		}
		open := false  // an infinite / ponder search was started (while idle) and not yet stopped or hit
		timed := false // some search of this program had a time budget
		for _, i := range prog {
			o := lcOps[i]
			if o.stops || o.hit {
				open = false
			}
			switch {
			case o.start != "":
				busy := s.IsSearching()
				if !busy {
					open = o.infinite || o.ponder
					if !o.infinite {
						timed = true // a time-controlled search (movetime, or ponder with clock) has started a timer thread
					}
				}
				sched.Record("start", fmt.Sprintf("%s busy=%v", o.start, busy))
				var sl search.Limits
				switch {
				case o.infinite:
					sl = search.Limits{Infinite: true, Depth: 1}
				case o.ponder:
					sl = search.Limits{Ponder: true, TimeControl: true, WhiteTime: 300 * time.Millisecond, BlackTime: 300 * time.Millisecond, Depth: 1}
				default:
					sl = search.Limits{TimeControl: true, MoveTime: 65 * time.Millisecond, Depth: 1}
				}
				call(o.name, func() { s.StartSearch(*pos[o.start], sl) })
			case o.name == "Stop":
				sched.Record("stop", "")
				call(o.name, s.StopSearch)
			case o.name == "Wait":
				call(o.name, s.WaitWhileSearching)
			case o.name == "IsSearching":
				call(o.name, func() { s.IsSearching() })
			case o.name == "PonderHit":
				sched.Record("ponderhit", "")
				call(o.name, s.PonderHit)
			case o.name == "NewGame":
				sched.Record("stop", "")
				call(o.name, s.NewGame)
			case o.name == "ClearHash":
				call(o.name, s.ClearHash)
			case o.name == "ResizeCache":
				call(o.name, s.ResizeCache)
			case o.name == "IsReady":
				call(o.name, s.IsReady)
			case o.idle > 0:
				sched.Sleep(o.idle)
			}
		}
		if open && timed {
			// the GUI lets an infinite / ponder search run for a while before it stops it: nothing may answer it meanwhile
			// (long enough for the budget of an earlier time-controlled search to run out)
			sched.Sleep(60 * time.Millisecond)
		}
		sched.Record("stop", "")
		call("Stop", s.StopSearch)
		call("Wait", s.WaitWhileSearching)
		sched.Record("end", "")
	}
}

var lcLegal = map[string]map[string]bool{}

func init() {
	for k, f := range lcFens {
		lcLegal[k] = map[string]bool{}
		for _, m := range refchess.MustFEN(f).LegalMoves() {
			lcLegal[k][m.UciUpper()] = true
		}
	}
}

type lcVerdict struct {
	key, what string
}

// lcCheck is the oracle for one execution.
func lcCheck(prog []int, x *sched.Exec) []lcVerdict {
	var v []lcVerdict
	switch x.Verdict {
	case "deadlock":
		key := "deadlock"
		last := ""
		for _, e := range x.Events {
			if e.Name == "call" {
				last = e.Arg
			}
			if e.Name == "return" {
				last = ""
			}
		}
		if strings.HasPrefix(last, "Start") {
			key = "deadlock:controller-blocked-in-start"
			running := false
			for _, e := range x.Events {
				if e.Name == "start" && strings.Contains(e.Arg, "busy=true") {
					running = true
				}
			}
			if running {
				key = "deadlock:start-while-running"
			}
		} else if last != "" {
			key = "deadlock:controller-blocked-in-" + strings.SplitN(last, "(", 2)[0]
		}
		v = append(v, lcVerdict{key, "deadlock: " + x.Detail})
	case "horizon":
		key := "hang"
		last, busy := "", false
		for _, e := range x.Events {
			if e.Name == "call" {
				last = e.Arg
			}
			if e.Name == "return" {
				last = ""
			}
			if e.Name == "start" {
				busy = strings.Contains(e.Arg, "busy=true")
			}
		}
		if strings.HasPrefix(last, "Start") && busy {
			key = "deadlock:start-while-running"
		} else if last != "" {
			key = "hang:controller-blocked-in-" + strings.SplitN(last, "(", 2)[0]
		}
		v = append(v, lcVerdict{key, "execution does not finish: " + x.Detail})
	case "panic":
		v = append(v, lcVerdict{"panic", x.Detail})
	case "divergence":
		v = append(v, lcVerdict{"INFRA:divergence", x.Detail})
	}
	names := make([]string, 0, len(x.Races))
	for n := range x.Races {
		names = append(names, n)
	}
	sort.Strings(names)
	for _, n := range names {
		r := x.Races[n]
		v = append(v, lcVerdict{"race:" + n, fmt.Sprintf("data race (%s) on %s between %s and %s", r.Kind, n, r.First, r.Other)})
	}
	if x.Verdict != "" {
		return v
	}
	// results vs starts
	type st struct {
		pos      string
		busy     bool
		idx      int // event index of the start
		infinite bool
		ponder   bool
		results  int
		resT     time.Duration // virtual time of its result
	}
	var starts []*st
	pi := 0
	for ei, e := range x.Events {
		if e.Name == "start" {
			// find the op
			for pi < len(prog) && lcOps[prog[pi]].start == "" {
				pi++
			}
			o := lcOps[prog[pi]]
			pi++
			starts = append(starts, &st{pos: o.start, busy: strings.Contains(e.Arg, "busy=true"), idx: ei, infinite: o.infinite, ponder: o.ponder})
		}
	}
	lastResultStart := -1
	for ei, e := range x.Events {
		if e.Name != "result" {
			continue
		}
		// which start does it belong to? the latest start before it whose position has this move and that has no result yet
		owner := -1
		for _, wantBusy := range []bool{false, true} { // a start issued while no search ran must get a result: serve those first
			for si, s := range starts {
				if owner < 0 && s.busy == wantBusy && s.idx < ei && lcLegal[s.pos][e.Arg] && s.results == 0 {
					owner = si
				}
			}
		}
		if owner < 0 {
			v = append(v, lcVerdict{"result:foreign", fmt.Sprintf("result %q does not belong to any started search without a result", e.Arg)})
			continue
		}
		s := starts[owner]
		s.results++
		s.resT = e.T
		if owner < lastResultStart {
			v = append(v, lcVerdict{"result:out-of-order", "results delivered in a different order than the searches were started"})
		}
		lastResultStart = owner
		if s.infinite || s.ponder {
			// not before a stop (or ponderhit) issued after its start
			ok := false
			for _, e2 := range x.Events[s.idx:ei] {
				if e2.Name == "stop" || (s.ponder && e2.Name == "ponderhit") {
					ok = true
				}
			}
			if !ok {
				mode := "infinite"
				if s.ponder {
					mode = "ponder"
				}
				// what ended it? The known mechanism (open finding): the timer thread of an earlier time-controlled search
				// notices the end of its search only at its next poll (every 5 ms); a search started within that window
				// resets the stop flag, the old timer lives on and later stops the new search. Only that history is
				// classified under the known key: an earlier time-controlled search exists and either the victim was
				// started no later than one polling period after its result, or the schedule contains a deviation (the
				// old timer thread was preempted / not scheduled while the clock advanced, which keeps it alive in the same
				// way). A search that is ended early on the default schedule outside that window is a different violation.
				key := "early-end:" + mode + "-search-answered-before-stop"
				for _, p := range starts[:owner] {
					if !p.infinite && p.results > 0 && (x.Events[s.idx].T-p.resT <= lcPollWindow || x.Deviations() > 0) {
						key = "early-end:leftover-timer-of-earlier-search"
					}
				}
				v = append(v, lcVerdict{key, fmt.Sprintf("%s search on %s delivered its result at t=%v although no stop was issued after its start", mode, s.pos, e.T)})
			}
		}
	}
	for _, s := range starts {
		if !s.busy && s.results != 1 {
			v = append(v, lcVerdict{"result:missing", fmt.Sprintf("search on %s was started while no search was running but delivered %d results", s.pos, s.results)})
		}
		if s.results > 1 {
			v = append(v, lcVerdict{"result:duplicate", fmt.Sprintf("search on %s delivered %d results", s.pos, s.results)})
		}
	}
	return v
}

// lcPollWindow: the polling period of the engine's timer thread (search.go startTimer sleeps 5 ms per iteration)
const lcPollWindow = 5 * time.Millisecond

func c14(tier string, args []string) int {
	run := vl.NewRun("C14", tier)
	if !sched.IsInstrumented("search") {
		fmt.Fprintln(os.Stderr, "C14 needs the instrumented build (bin/build-sched)")
		return 2
	}
	run.Rule("controller programs = every sequence of lifecycle calls up to the stated length (closed with Stop;Wait), each explored over all schedules of controller / search / timer threads within the deviation bound (preemptions and early clock ticks) by stateless DFS on the real search.go under a cooperative scheduler with virtual time; oracle: scheduler verdicts (deadlock, hang, panic), result sequence vs start sequence, vector-clock data-race detection on all instrumented shared fields")
	run.Assume("sequentially consistent memory; weaker orders are covered only through the race verdict")
	// stages are explored in this order; a stage cut short by the internal deadline is reported as incomplete
	type stage struct{ minLen, maxLen, bound int }
	stages := []stage{{1, 3, 1}}
	if tier == "thorough" {
		stages = []stage{{1, 3, 1}, {1, 2, 2}, {4, 4, 0}, {3, 3, 2}, {4, 4, 1}}
	}
	shard, n, worker := vl.WorkerShard()
	if !worker {
		run.Set("stages", fmt.Sprint(stages))
		return run.RunWorkers(16)
	}
	run.SetDeadline(budget(tier))
	outcomes := map[string]bool{}
	var execs, maxPoints int64
	for si, st := range stages {
		progs := lcPrograms(st.maxLen)
		done, total := 0, 0
		for pi, prog := range progs {
			if len(prog) < st.minLen || pi%n != shard {
				continue
			}
			total++
			if run.Expired() {
				continue
			}
			bound := st.bound
			body := lcBody(prog)
			ex := &sched.Explorer{Bound: bound, Body: body, MaxExec: 200000, Deadline: run.DeadlineTime()}
			ex.Check = func(x *sched.Exec) {
				run.AddTransitions(int64(x.Steps))
				var res []string
				for _, e := range x.Events {
					if e.Name == "result" {
						res = append(res, e.Arg)
					}
				}
				outcomes[x.Verdict+"|"+strings.Join(res, ",")] = true
				for _, vd := range lcCheck(prog, x) {
					if strings.HasPrefix(vd.key, "INFRA") {
						fmt.Fprintln(os.Stderr, "infrastructure error:", vd.what)
						os.Exit(2)
					}
					run.Violate(vd.key, vd.what, map[string]interface{}{"kind": "schedule", "program": lcName(prog), "ops": prog, "choices": x.Choices, "events": x.EventsString()})
				}
			}
			ex.Explore()
			execs += int64(ex.Executions)
			if int64(ex.MaxPoints) > maxPoints {
				maxPoints = int64(ex.MaxPoints)
			}
			if ex.Capped {
				run.Cap(fmt.Sprintf("stage %d (programs of length %d..%d, bound %d) not completed", si, st.minLen, st.maxLen, st.bound))
			} else {
				done++
			}
			run.AddStates(1)
			if pi%97 == 0 {
				run.SampleCat(fmt.Sprintf("program(bound %d)", bound), map[string]interface{}{"program": lcName(prog), "bound": bound, "executions": ex.Executions, "max_choice_points": ex.MaxPoints})
			}
		}
		run.Count(fmt.Sprintf("stage%d_len%d-%d_bound%d_programs_completed", si, st.minLen, st.maxLen, st.bound), int64(done))
		run.Count(fmt.Sprintf("stage%d_len%d-%d_bound%d_programs_total", si, st.minLen, st.maxLen, st.bound), int64(total))
		if done < total {
			run.Cap(fmt.Sprintf("stage %d (programs of length %d..%d, bound %d) not completed", si, st.minLen, st.maxLen, st.bound))
		}
	}
	// start-while-running sweep: a start request that is rejected because a search is running must leave that search alone,
	// whenever it arrives - also exactly when the timer has just set the stop flag and the search has not polled it yet.
	// Programs: a ponder search with clock, ponderhit (its timer now runs), an idle of every multiple of the 5 ms polling
	// period up to the budget, the rejected start, Wait; deviation bound 1 (the order in which threads woken by the same clock tick run is free).
	{
		opIdx := func(name string) int {
			for i, o := range lcOps {
				if o.name == name {
					return i
				}
			}
			panic("no op " + name)
		}
		var sweep [][]int
		idles, fire := lcSweepIdles()
		run.Set("start_while_running_sweep_timer_fires_at", fire.String())
		for _, first := range [][]int{{opIdx("Start(C,ponder,wtime 300ms)"), opIdx("PonderHit")}} {
			for _, id := range idles {
				prog := append([]int{}, first...)
				if id != "" {
					prog = append(prog, opIdx(id))
				}
				// the rejected start, then the controller waits for the running search to end by its own time budget
				// (a time-controlled start: if the first search is already over it is accepted and ends by itself, so Wait returns)
				prog = append(prog, opIdx("Start(B,movetime 65ms)"), opIdx("Wait"))
				sweep = append(sweep, prog)
			}
		}
		// leftovers outside the polling window: a time-controlled search that is over (by itself, by ponderhit + its timer,
		// or by stop), any other lifecycle call, an idle well beyond one polling period, then an infinite search that is left
		// running for 60 ms: nothing of the earlier search may end it
		for _, id := range []string{"Idle(10ms)"} {
			found := false
			for _, o := range lcOps {
				found = found || o.name == id
			}
			if !found {
				lcOps = append(lcOps, lcOp{name: id, idle: 10 * time.Millisecond, extra: true})
			}
		}
		for _, first := range [][]int{{opIdx("Start(B,movetime 65ms)")}, {opIdx("Start(C,ponder,wtime 300ms)"), opIdx("PonderHit")}, {opIdx("Start(C,ponder,wtime 300ms)"), opIdx("Stop")}} {
			for _, mid := range []string{"", "NewGame", "ClearHash", "IsReady", "Stop"} {
				for _, id := range []string{"Idle(10ms)", "Idle(20ms)"} {
					prog := append([]int{}, first...)
					if mid != "" {
						prog = append(prog, opIdx(mid))
					}
					prog = append(prog, opIdx(id), opIdx("Start(A,infinite)"))
					sweep = append(sweep, prog)
				}
			}
		}
		done := 0
		for pi, prog := range sweep {
			if pi%n != shard || run.Expired() {
				continue
			}
			prog := prog
			ex := &sched.Explorer{Bound: 1, Body: lcBody(prog), MaxExec: 200000, Deadline: run.DeadlineTime()}
			ex.Check = func(x *sched.Exec) {
				run.AddTransitions(int64(x.Steps))
				for _, vd := range lcCheck(prog, x) {
					if strings.HasPrefix(vd.key, "INFRA") {
						fmt.Fprintln(os.Stderr, "infrastructure error:", vd.what)
						os.Exit(2)
					}
					run.Violate(vd.key, vd.what, map[string]interface{}{"kind": "schedule", "program": lcName(prog), "ops": prog, "choices": x.Choices, "events": x.EventsString()})
				}
			}
			ex.Explore()
			execs += int64(ex.Executions)
			run.AddStates(1)
			if ex.Capped {
				run.Cap("start-while-running sweep not completed")
			} else {
				done++
			}
			run.SampleCat("start-while-running sweep (bound 1)", map[string]interface{}{"program": lcName(prog), "executions": ex.Executions})
		}
		run.Count("start_while_running_sweep_programs_completed", int64(done))
	}
	execs += c14DeepStop(run, tier, shard, n)
	run.AddEvals(execs)
	run.Count("executions", execs)
	run.Count("programs_explored", run.States)
	run.Count("distinct_outcomes_per_worker_sum", int64(len(outcomes)))
	run.Set("shared_variables", sched.SharedVars())
	return run.FinishWorker()
}

// c14DeepStop: the stop request (or ponderhit + stop) lands between every pair of steps of a deeper search
// (deviation bound 2: leave the controller after StartSearch, come back to it after k search steps, for every k).
// Oracle: exactly one result, best move / ponder move / every iteration PV legal and playable (the C05 clauses
// under schedules), no deadlock / hang / panic.
func c14DeepStop(run *vl.Run, tier string, shard, n int) int64 {
	type ds struct {
		fen   string
		depth int
		mode  string
	}
	cases := []ds{{lcFens["A"], 3, "infinite"}, {"8/8/8/8/8/8/Q7/K1k5 w - - 0 1", 2, "infinite"}, {"8/8/8/8/8/8/Q7/K1k5 w - - 0 1", 2, "ponder"}, {"6k1/5ppp/8/8/8/8/5PPP/3R2K1 w - - 0 1", 2, "infinite"}}
	bound := 2
	var execs int64
	for ci, c := range cases {
		if (ci+3)%n != shard {
			continue
		}
		c := c
		r := refchess.MustFEN(c.fen)
		body := func() {
			config.Settings.Search.UseBook = false
			config.Settings.Search.TTSize = 1
			s := search.NewSearch()
			s.SetUciHandler(&mockDriver{})
			p, _ := position.NewPositionFen(c.fen)
			sl := search.Limits{Infinite: true, Depth: c.depth}
			if c.mode == "ponder" {
				sl = search.Limits{Ponder: true, TimeControl: true, WhiteTime: time.Second, BlackTime: time.Second, Depth: c.depth}
			}
			s.StartSearch(*p, sl)
			if c.mode == "ponder" {
				s.PonderHit()
			}
			sched.Record("stop", "")
			s.StopSearch()
			s.WaitWhileSearching()
		}
		ex := &sched.Explorer{Bound: bound, Body: body, MaxExec: 60000, Deadline: run.DeadlineTime()}
		stopPositions := map[int]bool{}
		ex.Check = func(x *sched.Exec) {
			run.AddTransitions(int64(x.Steps))
			rep := map[string]interface{}{"kind": "schedule", "program": fmt.Sprintf("Start(%s,%s,depth %d); Stop", c.fen, c.mode, c.depth), "choices": x.Choices, "events": x.EventsString()}
			switch x.Verdict {
			case "deadlock", "horizon":
				run.Violate("deep-stop:"+x.Verdict, x.Detail, rep)
				return
			case "panic":
				run.Violate("deep-stop:panic", x.Detail, rep)
				return
			case "divergence":
				fmt.Fprintln(os.Stderr, "infrastructure error:", x.Detail)
				os.Exit(2)
			}
			results, best := 0, ""
			iterBefore := 0
			seenStop := false
			for _, e := range x.Events {
				switch e.Name {
				case "stop":
					seenStop = true
				case "iteration":
					if !seenStop {
						iterBefore++
					}
					pv := strings.Fields(strings.SplitN(e.Arg, " pv ", 2)[1])
					if i := playable(r, pv); i >= 0 {
						run.Violate("deep-stop:pv-unplayable", fmt.Sprintf("iteration PV %v: move %d is not legal", pv, i+1), rep)
					}
				case "result":
					results++
					best = e.Arg
					if _, ok := r.FindUci(best); !ok {
						run.Violate("deep-stop:bestmove-illegal", "best move "+best+" is not legal in the searched position", rep)
					}
				case "ponder":
					if m, ok := r.FindUci(best); ok {
						if _, ok2 := r.Make(m).FindUci(e.Arg); !ok2 {
							run.Violate("deep-stop:pondermove-illegal", "ponder move "+e.Arg+" is not legal after "+best, rep)
						}
					}
				}
			}
			stopPositions[iterBefore*1000+x.Steps] = true
			if results != 1 {
				run.Violate("deep-stop:result-count", fmt.Sprintf("%d results for one search", results), rep)
			}
		}
		ex.Explore()
		execs += int64(ex.Executions)
		run.AddStates(1)
		if ex.Capped {
			run.Cap("deep-stop exploration capped")
		}
		run.SampleCat("deep-stop", map[string]interface{}{"fen": c.fen, "mode": c.mode, "depth": c.depth, "bound": bound, "schedules": ex.Executions, "distinct_stop_arrivals": len(stopPositions)})
	}
	return execs
}

// lcSweepIdles: the idles of the start-while-running sweep - none, and those around the moment the timer of the hit ponder
// search fires: its budget (from the engine's own budget function) rounded up to the 5 ms polling grid, one period earlier
// and one later. The corresponding ops are appended to lcOps (marked extra) if they are not there yet; bin/replay calls
// this too, so that the op indices of a recorded sweep program resolve.
func lcSweepIdles() ([]string, time.Duration) {
	has10 := false
	for _, o := range lcOps {
		has10 = has10 || o.name == "Idle(10ms)"
	}
	if !has10 {
		lcOps = append(lcOps, lcOp{name: "Idle(10ms)", idle: 10 * time.Millisecond, extra: true})
	}
	pc, _ := position.NewPositionFen(lcFens["C"])
	budget := search.NewSearch().VerifTimeBudget(pc, &search.Limits{Ponder: true, TimeControl: true, WhiteTime: 300 * time.Millisecond, BlackTime: 300 * time.Millisecond, Depth: 1})
	fire := ((budget + 5*time.Millisecond - 1) / (5 * time.Millisecond)) * 5 * time.Millisecond
	idles := []string{""}
	for _, d := range []time.Duration{fire - 5*time.Millisecond, fire, fire + 5*time.Millisecond} {
		if d <= 0 {
			continue
		}
		name := fmt.Sprintf("Idle(%dms)", d.Milliseconds())
		found := false
		for _, o := range lcOps {
			found = found || o.name == name
		}
		if !found {
			lcOps = append(lcOps, lcOp{name: name, idle: d, extra: true})
		}
		idles = append(idles, name)
	}
	return idles, fire
}
