package main

import (
	"bytes"
	"encoding/gob"

	"github.com/frankkopp/FrankyGo/internal/openingbook"
)

// gobDecodable: does the byte slice decode as a book map without error?
func gobDecodable(b []byte) (ok bool) {
	defer func() {
		if recover() != nil {
			ok = false
		}
	}()
	var m map[uint64]openingbook.BookEntry
	return gob.NewDecoder(bytes.NewReader(b)).Decode(&m) == nil
}
