package main

import (
	"fmt"
	"strings"

	"github.com/frankkopp/FrankyGo/internal/movegen"
	"github.com/frankkopp/FrankyGo/internal/position"
	. "github.com/frankkopp/FrankyGo/internal/types"

	"github.com/frankkopp/FrankyGo/verif/eng"
	"github.com/frankkopp/FrankyGo/verif/refchess"
	"github.com/frankkopp/FrankyGo/verif/space"
	"github.com/frankkopp/FrankyGo/verif/vl"
)

func init() { registry["C02"] = c02 }

var fenFieldNames = []string{"placement", "side", "castling", "ep", "halfmove", "fullmove"}

func fenDiffField(a, b string) string {
	fa, fb := strings.Fields(a), strings.Fields(b)
	for i := 0; i < 6; i++ {
		if i >= len(fa) || i >= len(fb) {
			return "fields"
		}
		if fa[i] != fb[i] {
			return fenFieldNames[i]
		}
	}
	return "none"
}

var kindNames = []string{"normal", "promotion", "enpassant", "castling"}

// compareSuccessor checks the engine position p (after the move) against the reference successor q.
func compareSuccessor(p *position.Position, q *refchess.Pos) (string, string) {
	if f := p.StringFen(); f != q.FEN() {
		return "fen-" + fenDiffField(f, q.FEN()), fmt.Sprintf("engine FEN %q, rules %q", f, q.FEN())
	}
	for s := 0; s < 64; s++ {
		if eng.RefPiece(p.GetPiece(Square(s))) != q.B[s] {
			return "getpiece", "GetPiece(" + refchess.SqName(s) + ") disagrees with the rules"
		}
	}
	e := eng.RefOfEngine(p)
	if e.Cast != q.Cast {
		return "castlingrights", "CastlingRights() disagrees"
	}
	if e.EP != q.EP {
		return "epsquare", "GetEnPassantSquare() disagrees"
	}
	if e.Half != q.Half {
		return "halfmoveclock", "HalfMoveClock() disagrees"
	}
	if e.White != q.White {
		return "nextplayer", "NextPlayer() disagrees"
	}
	return "", ""
}

func c02Moves(w *wctx, p *position.Position, r *refchess.Pos, variant string) {
	run := w.run
	legal := w.mg.GenerateLegalMoves(p, movegen.GenAll)
	engMoves := append([]Move{}, (*legal)...)
	for _, m := range r.LegalMoves() {
		em, ok := findEngMove(engMoves, eng.TupleOfRef(m))
		if !ok {
			em = eng.EngMove(m) // C01 reports the missing move; still exercise DoMove
		}
		q := r.Make(m)
		run.AddTransitions(1)
		if q.Cast != r.Cast {
			run.Count("moves_changing_rights", 1)
		}
		if q.EP >= 0 {
			run.Count("double_pushes", 1)
		}
		p.DoMove(em)
		cls, what := compareSuccessor(p, q)
		p.UndoMove()
		if cls != "" {
			run.Violate("successor:"+cls+":"+kindNames[m.Kind], "DoMove does not yield the rule-defined successor: "+what,
				w.replayOf(r, map[string]interface{}{"move": m.String(), "variant": variant}))
		}
	}
}

func c02State(w *wctx, p *position.Position, r *refchess.Pos) {
	c02Moves(w, p, r, "as-enumerated")
	// the position a search reaches by a null move is a position like any other: every legal move made on the live object
	// must give the successor that the rules define for the position its own FEN describes (tree walks only: keeps the
	// family sweeps at their size)
	if w.seed != "" && !r.InCheck(r.White) {
		p.DoNullMove()
		if rn, err := refchess.ParseFEN(p.StringFen()); err == nil && rn.Valid() {
			c02Moves(w, p, rn, "after DoNullMove")
			w.run.Count("null_moved_positions", 1)
		}
		p.UndoNullMove()
	}
	if w.seed == "" && (w.run.Tier == "thorough" || w.fam != "P3") { // k-man families: also with non-trivial clocks / move numbers
		r2 := r.Clone()
		r2.Half, r2.Full = 37, 41
		p2, err := position.NewPositionFen(r2.FEN())
		if err != nil {
			w.run.Violate("setup-failed", "FEN with clocks rejected: "+err.Error(), w.replayOf(r2, nil))
			return
		}
		c02Moves(w, p2, r2, "halfmove=37 fullmove=41")
	}
}

// walk rules: deterministic long games. rule (a,b): at ply i play legal move number (a*i+b) mod n
// of refchess' move list, preferring non-capturing non-pawn moves so the game keeps going.
type walkSpec struct {
	fen  string
	a, b int
}

var walkSpecs = []walkSpec{
	{"8/8/4k3/8/8/3K4/R6r/8 w - - 0 1", 1, 0},
	{"8/8/4k3/8/8/3K4/R6r/8 w - - 0 1", 3, 1},
	{"r3k2r/8/8/8/8/8/8/R3K2R w KQkq - 0 1", 5, 2},
	{"rnbqkbnr/pppppppp/8/8/8/8/PPPPPPPP/RNBQKBNR w KQkq - 0 1", 7, 3},
	{"r3k2r/p1ppqpb1/bn2pnp1/3PN3/1p2P3/2N2Q1p/PPPBBPPP/R3K2R w KQkq - 0 1", 2, 1},
	{"8/5k2/8/8/2N5/8/3K1b2/8 b - - 10 50", 1, 1},
	{"4k3/pppppppp/8/8/8/8/PPPPPPPP/4K3 w - - 0 1", 11, 5},
	{"q3k3/8/8/8/8/8/8/Q3K3 w - - 99 1", 1, 2},
	{"8/8/4k3/8/8/3K4/R6r/8 b - - 0 1", 2, 0},
	{"rnbqkbnr/pppppppp/8/8/8/8/PPPPPPPP/RNBQKBNR w KQkq - 0 1", 13, 1},
	{"r3k2r/8/8/8/8/8/8/R3K2R b KQkq - 0 1", 3, 0},
	{"n1n5/PPPk4/8/8/8/8/4Kppp/5N1N b - - 0 1", 1, 0},
}

// walkMoves produces the deterministic move sequence (up to 512 plies) of a walk.
func walkMoves(ws walkSpec) (*refchess.Pos, []refchess.Move) {
	r := refchess.MustFEN(ws.fen)
	start := r
	var seq []refchess.Move
	for i := 0; i < 512; i++ {
		ms := r.LegalMoves()
		if len(ms) == 0 {
			break
		}
		// prefer moves that do not give mate/stalemate immediately so the walk survives
		k := (ws.a*i + ws.b) % len(ms)
		var pick *refchess.Move
		for j := 0; j < len(ms); j++ {
			m := ms[(k+j)%len(ms)]
			if len(r.Make(m).LegalMoves()) > 0 {
				pick = &m
				break
			}
		}
		if pick == nil {
			pick = &ms[k]
		}
		seq = append(seq, *pick)
		r = r.Make(*pick)
	}
	return start, seq
}

func c02Walks(run *vl.Run, specs []walkSpec) {
	var full int64
	vl.Parallel(len(specs), func(i, n int) {
		ws := specs[i]
		start, seq := walkMoves(ws)
		rep := map[string]interface{}{"kind": "walk", "fen": ws.fen, "rule": fmt.Sprintf("(%d*i+%d) mod n", ws.a, ws.b), "plies": len(seq)}
		p, err := position.NewPositionFen(ws.fen)
		if err != nil {
			run.Violate("setup-failed", err.Error(), rep)
			return
		}
		r := start
		msg, pan := vl.Guard(func() {
			for ply, m := range seq {
				q := r.Make(m)
				p.DoMove(eng.EngMove(m))
				run.AddTransitions(1)
				if cls, what := compareSuccessor(p, q); cls != "" {
					rep["ply"] = ply + 1
					rep["move"] = m.String()
					run.Violate("walk-successor:"+cls, "long game: "+what, rep)
					return
				}
				r = q
			}
		})
		if pan {
			run.Violate("walk-panic", "long game within the 512-ply capacity panicked: "+msg, rep)
			return
		}
		if len(seq) == 512 {
			run.Count("walks_reaching_512_plies", 1)
		}
		run.SampleCat("WALK", rep)
		_ = full
	})
	run.Set("walks", len(specs))
}

func c02(tier string, args []string) int {
	run := vl.NewRun("C02", tier)
	run.Rule("every (position, legal move) pair of the named complete k-man families (each also with half-move clock 37 / move number 41) and of the game trees; deterministic 512-ply walks; a transition is one DoMove on the real Position compared with the reference successor")
	run.Assume("refchess reproduces the published perft tables (checked at start)")
	refSelfTest(run)
	run.SetDeadline(budget(tier))
	treeDepth, seeds, walks := 2, quickSeeds(), walkSpecs[:6]
	if tier == "thorough" {
		treeDepth, seeds, walks = 3, space.AllSeeds(), walkSpecs
	}
	fams := stdFamilies(tier)
	if tier != "thorough" {
		fams = []family{famP3(space.P3Opt{}, "P3"), famPCastle(0), famPEP([]int8{}, true, "PEP(kings+pawns, second capturer)"), famPPromo()}
	}
	runTree(run, seeds, treeDepth, nil, c02State)
	runFamilies(run, fams, nil, c02State)
	c02Walks(run, walks)
	return run.Finish()
}
