package main

import (
	"fmt"

	"github.com/frankkopp/FrankyGo/internal/config"
	"github.com/frankkopp/FrankyGo/internal/evaluator"
	"github.com/frankkopp/FrankyGo/internal/movegen"
	"github.com/frankkopp/FrankyGo/internal/position"
	"github.com/frankkopp/FrankyGo/internal/search"
	. "github.com/frankkopp/FrankyGo/internal/types"

	"github.com/frankkopp/FrankyGo/verif/refchess"
	"github.com/frankkopp/FrankyGo/verif/vl"
)

func init() { registry["C06"] = c06 }

var soundSwitches = []string{"UsePVS", "UseKiller", "UseHistoryCounter", "UseCounterMoves", "UseIID", "UseMDP", "UseTT"}

// soundCfg: every unsound pruning and extension off; the sound switches per mask; TT for move ordering only.
func soundCfg(mask int, quiescence bool) cfgSnapshot {
	c := cfgSnapshot{}
	for _, n := range switchNames {
		c[n] = false
	}
	for i, n := range soundSwitches {
		c[n] = mask&(1<<uint(i)) != 0
	}
	c["UseTTMove"] = c["UseTT"]
	c["UseQSTT"] = c["UseTT"]
	c["UseTTValue"] = false
	c["UseQuiescence"] = quiescence
	c["UseQSStandpat"] = quiescence
	c["UseSEE"] = quiescence
	c["UsePromNonQuiet"] = true
	return c
}

type mmCtx struct {
	mg []*movegen.Movegen
	ev *evaluator.Evaluator
}

// minimax: full-width negamax over the engine's own position, legal generator and evaluator with the
// engine's terminal conventions (draw test after the move before anything else; leaf = static evaluation;
// mated in k plies = -mate+k; stalemate, repetition, 50 moves = 0).
func (c *mmCtx) minimax(p *position.Position, depth, ply int) Value {
	if depth == 0 {
		return c.ev.Evaluate(p)
	}
	legal := append([]Move{}, (*c.mg[ply].GenerateLegalMoves(p, movegen.GenAll))...)
	if len(legal) == 0 {
		if p.HasCheck() {
			return -ValueCheckMate + Value(ply)
		}
		return ValueDraw
	}
	best := ValueNA
	for _, m := range legal {
		p.DoMove(m)
		var v Value
		if p.CheckRepetitions(2) || p.HalfMoveClock() >= 100 {
			v = ValueDraw
		} else {
			v = -c.minimax(p, depth-1, ply+1)
		}
		p.UndoMove()
		if v > best {
			best = v
		}
	}
	return best
}

// treeHasClamp: can a promotion push the raw game-phase sum above its maximum within the tree?
func treeHasClamp(p *position.Position, mg []*movegen.Movegen, depth, ply int) bool {
	moves := append([]Move{}, (*mg[ply].GeneratePseudoLegalMoves(p, movegen.GenAll, false))...)
	for _, m := range moves {
		if isClampEvent(p, m) {
			return true
		}
	}
	if depth <= 1 {
		return false
	}
	for _, m := range moves {
		p.DoMove(m)
		found := p.WasLegalMove() && treeHasClamp(p, mg, depth-1, ply+1)
		p.UndoMove()
		if found {
			return true
		}
	}
	return false
}

func c06(tier string, args []string) int {
	run := vl.NewRun("C06", tier)
	run.Rule("positions x depths x the full 2^7 cube of sound switches (PVS, killer, history counter, counter moves, IID, MDP, TT for move ordering) with every unsound switch off: without quiescence BestValue equals a 30-line full-width negamax over the engine's own position/generator/evaluator and the best move attains it (single-move roots at depth 1); with quiescence the root value equals that of the plain alpha-beta configuration; IID also with IIDDepth=2/IIDReduction=1")
	baseSearchConfig()
	maxDepth, nTest := 2, 25
	small := smallSearchPositions(0)
	if tier == "thorough" {
		maxDepth, nTest = 3, 120
	}
	type job struct {
		mask int
		iid2 bool
	}
	var jobs []job
	for mask := 0; mask < 128; mask++ {
		jobs = append(jobs, job{mask, false})
		if mask&(1<<4) != 0 { // IID on: also with shallow IID parameters so that IID really runs at these depths
			jobs = append(jobs, job{mask, true})
		}
	}
	shard, n, worker := vl.WorkerShard()
	if !worker {
		run.Set("configurations", len(jobs))
		return run.RunWorkers(32)
	}
	run.SetDeadline(budget(tier))
	vl.SetWorkers(1)
	var fens []string
	for i, f := range append(append([]string{}, small...), testdataFens(nTest)...) {
		r, err := refchess.ParseFEN(f)
		if err != nil || !r.Valid() || r.Half >= 100 || len(r.LegalMoves()) == 0 {
			continue
		}
		if tier != "thorough" && i < len(small) && i%4 != 0 {
			continue
		}
		fens = append(fens, f)
	}
	ctx := &mmCtx{ev: evaluator.NewEvaluator()}
	for i := 0; i < 8; i++ {
		ctx.mg = append(ctx.mg, movegen.NewMoveGen())
	}
	// reference values (computed once per worker)
	type key struct {
		fen string
		d   int
	}
	mm := map[key]Value{}
	plain := map[key]Value{}
	soundCfg(0, true).apply()
	for _, f := range fens {
		r := refchess.MustFEN(f)
		single := len(r.LegalMoves()) == 1
		for d := 1; d <= maxDepth; d++ {
			p, _ := position.NewPositionFen(f)
			dd := d
			if single {
				dd = 1
			}
			mm[key{f, d}] = ctx.minimax(p, dd, 0)
			// plain alpha-beta with quiescence as the baseline of the differential clause
			s := search.NewSearch()
			s.SetUciHandler(&capDriver{})
			plain[key{f, d}] = runSearch(s, p, search.Limits{Depth: d}).BestValue
		}
	}
	var searches int64
	for ji, j := range jobs {
		if ji%n != shard {
			continue
		}
		for _, qs := range []bool{false, true} {
			cfg := soundCfg(j.mask, qs)
			cfg.apply()
			config.Settings.Search.IIDDepth, config.Settings.Search.IIDReduction = 6, 2
			name := fmt.Sprintf("sound mask %07b quiescence=%v", j.mask, qs)
			if j.iid2 {
				config.Settings.Search.IIDDepth, config.Settings.Search.IIDReduction = 2, 1
				name += " IIDDepth=2"
			}
			for _, f := range fens {
				if run.Expired() {
					break
				}
				r := refchess.MustFEN(f)
				for d := 1; d <= maxDepth; d++ {
					p, _ := position.NewPositionFen(f)
					s := search.NewSearch()
					s.SetUciHandler(&capDriver{})
					var res search.Result
					msg, pan := vl.Guard(func() { res = runSearch(s, p, search.Limits{Depth: d}) })
					searches++
					run.AddStates(1)
					rep := map[string]interface{}{"kind": "search", "fen": f, "depth": d, "config": name}
					if pan {
						run.Violate("search-panic", msg, rep)
						continue
					}
					run.AddTransitions(int64(s.NodesVisited()))
					if !qs {
						want := mm[key{f, d}]
						explained := func() bool {
							q, _ := position.NewPositionFen(f)
							return treeHasClamp(q, ctx.mg, d+1, 0)
						}
						if res.BestValue != want {
							rep["engine_value"], rep["minimax_value"] = int(res.BestValue), int(want)
							if explained() {
								run.Violate(keyClamp, whatClamp, rep)
							} else {
								cls := "value-differs-from-minimax"
								if want.IsCheckMateValue() || res.BestValue.IsCheckMateValue() {
									cls += ":mate-score"
								}
								run.Violate(cls, fmt.Sprintf("depth %d value %d but minimax value %d", d, res.BestValue, want), rep)
							}
						} else if len(r.LegalMoves()) > 1 {
							// the best move attains the value
							q, _ := position.NewPositionFen(f)
							q.DoMove(res.BestMove)
							var v Value
							if q.CheckRepetitions(2) || q.HalfMoveClock() >= 100 {
								v = ValueDraw
							} else {
								v = -ctx.minimax(q, d-1, 1)
							}
							if v != want && !explained() {
								rep["bestmove"] = res.BestMove.StringUci()
								run.Violate("bestmove-does-not-attain-value", fmt.Sprintf("best move %s has minimax value %d, root value %d", res.BestMove.StringUci(), v, want), rep)
							}
						}
					} else if want := plain[key{f, d}]; res.BestValue != want {
						rep["value"], rep["plain_alphabeta_value"] = int(res.BestValue), int(want)
						q, _ := position.NewPositionFen(f)
						if treeHasClamp(q, ctx.mg, d+2, 0) {
							run.Violate(keyClamp, whatClamp, rep)
						} else {
							run.Violate("quiescence-value-depends-on-sound-switches", fmt.Sprintf("root value %d, plain alpha-beta %d", res.BestValue, want), rep)
						}
					}
				}
			}
			run.SampleCat("config", map[string]interface{}{"config": name, "positions": len(fens), "max_depth": maxDepth})
		}
	}
	run.AddEvals(searches)
	run.Set("positions_per_config", len(fens))
	return run.FinishWorker()
}
