package main

import (
	"fmt"
	"io/ioutil"
	"os"
	"path/filepath"
	"strings"

	"github.com/frankkopp/FrankyGo/internal/config"
	"github.com/frankkopp/FrankyGo/internal/evaluator"
	"github.com/frankkopp/FrankyGo/internal/movegen"
	"github.com/frankkopp/FrankyGo/internal/position"
	"github.com/frankkopp/FrankyGo/internal/search"
	. "github.com/frankkopp/FrankyGo/internal/types"

	"github.com/frankkopp/FrankyGo/verif/refchess"
	"github.com/frankkopp/FrankyGo/verif/space"
	"github.com/frankkopp/FrankyGo/verif/vl"
)

func init() { registry["C06"] = c06 }

var soundSwitches = []string{"UsePVS", "UseKiller", "UseHistoryCounter", "UseCounterMoves", "UseIID", "UseMDP", "UseTT"}

// soundCfg: every unsound pruning and extension off; the sound switches per mask; TT for move ordering only.
func soundCfg(mask int, quiescence bool) cfgSnapshot {
	c := cfgSnapshot{}
	for _, n := range switchNames {
		c[n] = false
	}
	for i, n := range soundSwitches {
		c[n] = mask&(1<<uint(i)) != 0
	}
	c["UseTTMove"] = c["UseTT"]
	c["UseQSTT"] = c["UseTT"]
	c["UseTTValue"] = false
	c["UseQuiescence"] = quiescence
	c["UseQSStandpat"] = quiescence
	c["UseSEE"] = quiescence
	c["UsePromNonQuiet"] = true
	return c
}

type mmCtx struct {
	mg []*movegen.Movegen
	ev *evaluator.Evaluator
}

// minimax: full-width negamax over the engine's own position, legal generator and evaluator with the
// engine's terminal conventions (draw test after the move before anything else; leaf = static evaluation;
// mated in k plies = -mate+k; stalemate, repetition, 50 moves = 0).
func (c *mmCtx) minimax(p *position.Position, depth, ply int) Value {
	if depth == 0 {
		return c.ev.Evaluate(p)
	}
	legal := append([]Move{}, (*c.mg[ply].GenerateLegalMoves(p, movegen.GenAll))...)
	if len(legal) == 0 {
		if p.HasCheck() {
			return -ValueCheckMate + Value(ply)
		}
		return ValueDraw
	}
	best := ValueNA
	for _, m := range legal {
		p.DoMove(m)
		var v Value
		if p.CheckRepetitions(2) || p.HalfMoveClock() >= 100 {
			v = ValueDraw
		} else {
			v = -c.minimax(p, depth-1, ply+1)
		}
		p.UndoMove()
		if v > best {
			best = v
		}
	}
	return best
}

// treeHasClamp: can a promotion push the raw game-phase sum above its maximum within the tree?
func treeHasClamp(p *position.Position, mg []*movegen.Movegen, depth, ply int) bool {
	moves := append([]Move{}, (*mg[ply].GeneratePseudoLegalMoves(p, movegen.GenAll, false))...)
	for _, m := range moves {
		if isClampEvent(p, m) {
			return true
		}
	}
	if depth <= 1 {
		return false
	}
	for _, m := range moves {
		p.DoMove(m)
		found := p.WasLegalMove() && treeHasClamp(p, mg, depth-1, ply+1)
		p.UndoMove()
		if found {
			return true
		}
	}
	return false
}

func c06(tier string, args []string) int {
	run := vl.NewRun("C06", tier)
	run.Rule("positions x depths x the full 2^7 cube of sound switches (PVS, killer, history counter, counter moves, IID, MDP, TT for move ordering) with every unsound switch off: without quiescence BestValue equals a 30-line full-width negamax over the engine's own position/generator/evaluator and the best move attains it (single-move roots at depth 1); with quiescence the root value equals that of the plain alpha-beta configuration; IID also with IIDDepth=2/IIDReduction=1")
	baseSearchConfig()
	maxDepth, nTest := 2, 25
	small := smallSearchPositions(0)
	if tier == "thorough" {
		maxDepth, nTest = 3, 120
	}
	type job struct {
		mask int
		iid2 bool
	}
	var jobs []job
	for mask := 0; mask < 128; mask++ {
		jobs = append(jobs, job{mask, false})
		if mask&(1<<4) != 0 { // IID on: also with shallow IID parameters so that IID really runs at these depths
			jobs = append(jobs, job{mask, true})
		}
	}
	shard, n, worker := vl.WorkerShard()
	if !worker {
		run.Set("configurations", len(jobs))
		return run.RunWorkers(32)
	}
	run.SetDeadline(budget(tier))
	vl.SetWorkers(1)
	var fens []string
	for i, f := range append(append([]string{}, small...), testdataFens(nTest)...) {
		r, err := refchess.ParseFEN(f)
		if err != nil || !r.Valid() || r.Half >= 100 || len(r.LegalMoves()) == 0 {
			continue
		}
		if tier != "thorough" && i < len(small) && i%4 != 0 {
			continue
		}
		fens = append(fens, f)
	}
	// stalemate traps with a blocked pawn on its initial rank (the cheap has-a-legal-move test decides stalemate in the tree)
	trapLevel := 0
	if tier == "thorough" {
		trapLevel = 1
	}
	fens = append(fens, stalemateTraps(trapLevel)...)
	// a double step that gives check and can only be answered by capturing that pawn en passant (one ply below the root)
	epKinds := []int8{space.R}
	if tier == "thorough" {
		epKinds = []int8{space.B, space.R, space.N, space.Q}
	}
	fens = append(fens, space.EpEvasionRoots(epKinds, 1)...)
	// the draw rules inside the tree: clocks 97..99 and shuffle histories (the root itself is never a draw)
	drawStep := 4
	if tier == "thorough" {
		drawStep = 1
	}
	for _, f := range drawCases(append([]string{}, fens...), drawStep, false) {
		if r, _, err := caseRef(f); err == nil && len(r.LegalMoves()) > 0 && !caseRootIsDrawn(f) {
			fens = append(fens, f)
		}
	}
	ctx := &mmCtx{ev: evaluator.NewEvaluator()}
	for i := 0; i < 8; i++ {
		ctx.mg = append(ctx.mg, movegen.NewMoveGen())
	}
	// reference values (computed once per worker)
	type key struct {
		fen string
		d   int
	}
	mm := map[key]Value{}
	plain := map[key]Value{}
	soundCfg(0, true).apply()
	for _, f := range fens {
		r := mustCaseRef(f)
		single := len(r.LegalMoves()) == 1
		for d := 1; d <= maxDepth; d++ {
			p := casePos(f)
			dd := d
			if single {
				dd = 1
			}
			mm[key{f, d}] = ctx.minimax(p, dd, 0)
			// plain alpha-beta with quiescence as the baseline of the differential clause
			s := search.NewSearch()
			s.SetUciHandler(&capDriver{})
			plain[key{f, d}] = runSearch(s, p, search.Limits{Depth: d}).BestValue
		}
	}
	mm0 := func(f string, d int) (Value, bool) { v, ok := mm[key{f, d}]; return v, ok }
	plain0 := func(f string, d int) (Value, bool) { v, ok := plain[key{f, d}]; return v, ok }
	var searches int64
	for ji, j := range jobs {
		if ji%n != shard {
			continue
		}
		for _, qs := range []bool{false, true} {
			cfg := soundCfg(j.mask, qs)
			cfg.apply()
			config.Settings.Search.IIDDepth, config.Settings.Search.IIDReduction = 6, 2
			name := fmt.Sprintf("sound mask %07b quiescence=%v", j.mask, qs)
			if j.iid2 {
				config.Settings.Search.IIDDepth, config.Settings.Search.IIDReduction = 2, 1
				name += " IIDDepth=2"
			}
			for _, f := range fens {
				if run.Expired() {
					break
				}
				r := mustCaseRef(f)
				for d := 1; d <= maxDepth; d++ {
					p := casePos(f)
					s := search.NewSearch()
					s.SetUciHandler(&capDriver{})
					var res search.Result
					msg, pan := vl.Guard(func() { res = runSearch(s, p, search.Limits{Depth: d}) })
					searches++
					run.AddStates(1)
					rep := map[string]interface{}{"kind": "search", "fen": f, "depth": d, "config": name}
					if pan {
						run.Violate("search-panic", msg, rep)
						continue
					}
					run.AddTransitions(int64(s.NodesVisited()))
					if !qs {
						want := mm[key{f, d}]
						explained := func() bool {
							q := casePos(f)
							return treeHasClamp(q, ctx.mg, d+1, 0)
						}
						if res.BestValue != want {
							rep["engine_value"], rep["minimax_value"] = int(res.BestValue), int(want)
							if explained() {
								run.Violate(keyClamp, whatClamp, rep)
							} else {
								cls := "value-differs-from-minimax"
								if want.IsCheckMateValue() || res.BestValue.IsCheckMateValue() {
									cls += ":mate-score"
								}
								run.Violate(cls, fmt.Sprintf("depth %d value %d but minimax value %d", d, res.BestValue, want), rep)
							}
						} else if len(r.LegalMoves()) > 1 {
							// the best move attains the value
							q := casePos(f)
							q.DoMove(res.BestMove)
							var v Value
							if q.CheckRepetitions(2) || q.HalfMoveClock() >= 100 {
								v = ValueDraw
							} else {
								v = -ctx.minimax(q, d-1, 1)
							}
							if v != want && !explained() {
								rep["bestmove"] = res.BestMove.StringUci()
								run.Violate("bestmove-does-not-attain-value", fmt.Sprintf("best move %s has minimax value %d, root value %d", res.BestMove.StringUci(), v, want), rep)
							}
						}
					} else if want := plain[key{f, d}]; res.BestValue != want {
						rep["value"], rep["plain_alphabeta_value"] = int(res.BestValue), int(want)
						q := casePos(f)
						if treeHasClamp(q, ctx.mg, d+2, 0) {
							run.Violate(keyClamp, whatClamp, rep)
						} else {
							run.Violate("quiescence-value-depends-on-sound-switches", fmt.Sprintf("root value %d, plain alpha-beta %d", res.BestValue, want), rep)
						}
					}
				}
			}
			// histories sharing the hash table (it is kept between searches; used for move ordering only it must not
			// change any value): (a) the same Search instance after a deeper search of the same position, (b) game
			// continuation - after a search of the position two plies earlier. Only where the table is switched on.
			if cfg["UseTT"] {
				for fi, f := range fens {
					if run.Expired() {
						break
					}
					if tier != "thorough" && fi%3 != 0 {
						continue
					}
					c06Histories(run, ctx, f, name, qs, maxDepth, mm0, plain0)
				}
			}
			run.SampleCat("config", map[string]interface{}{"config": name, "positions": len(fens), "max_depth": maxDepth})
		}
	}
	run.AddEvals(searches)
	run.Set("positions_per_config", len(fens))
	c06Deep(run, tier, shard, n)
	c06MateSuite(run, tier, shard, n)
	return run.FinishWorker()
}

// c06MateSuite: the differential clause on the repository's own mate positions (forcing lines with captures, so that the
// quiescence search sees mates beyond the horizon) at a depth where internal iterative deepening runs on hash moves of
// earlier iterations: IID on (IIDDepth 3) and off, PVS on and off, hash table for ordering, quiescence - one root value.
func c06MateSuite(run *vl.Run, tier string, shard, n int) {
	repo := os.Getenv("VERIF_REPO")
	if repo == "" {
		repo = "/repo"
	}
	b, err := ioutil.ReadFile(filepath.Join(repo, "test/testdata/featuretests/mate_test_suite.epd"))
	if err != nil {
		run.Set("mate_suite", "not found: "+err.Error())
		return
	}
	var fens []string
	for _, l := range strings.Split(string(b), "\n") {
		f := strings.Fields(l)
		if len(f) < 6 || f[4] != "dm" || strings.TrimSuffix(f[5], ";") != "3" {
			continue
		}
		if r, err := refchess.ParseFEN(strings.Join(f[:4], " ") + " 0 1"); err == nil && r.Valid() {
			fens = append(fens, r.FEN())
		}
	}
	count, depth := 4, 6
	if tier == "thorough" {
		count = len(fens)
	}
	for i, f := range fens {
		if i >= count || i%n != shard || run.Expired() {
			continue
		}
		var base Value
		for mask := 0; mask < 4; mask++ {
			cfg := soundCfg(0, true)
			cfg["UseTT"], cfg["UseTTMove"], cfg["UseQSTT"] = true, true, true
			cfg["UseIID"], cfg["UsePVS"] = mask&1 != 0, mask&2 != 0
			cfg.apply()
			config.Settings.Search.IIDDepth, config.Settings.Search.IIDReduction = 3, 2
			s := search.NewSearch()
			s.SetUciHandler(&capDriver{})
			var res search.Result
			msg, pan := vl.Guard(func() { res = runSearch(s, casePos(f), search.Limits{Depth: depth}) })
			config.Settings.Search.IIDDepth, config.Settings.Search.IIDReduction = 6, 2
			run.AddStates(1)
			run.Count("mate_suite_searches", 1)
			rep := map[string]interface{}{"kind": "search", "fen": f, "depth": depth, "config": fmt.Sprintf("quiescence, hash table for ordering, IID(depth 3)=%v PVS=%v, all else off", mask&1 != 0, mask&2 != 0)}
			if pan {
				run.Violate("search-panic", msg, rep)
				continue
			}
			run.AddTransitions(int64(s.NodesVisited()))
			if mask == 0 {
				base = res.BestValue
			} else if res.BestValue != base {
				rep["value"], rep["plain_alphabeta_value"] = int(res.BestValue), int(base)
				q := casePos(f)
				ctx := &mmCtx{ev: evaluator.NewEvaluator()}
				for k := 0; k < 10; k++ {
					ctx.mg = append(ctx.mg, movegen.NewMoveGen())
				}
				if treeHasClamp(q, ctx.mg, 3, 0) {
					run.Violate(keyClamp, whatClamp, rep)
				} else {
					run.Violate("quiescence-value-depends-on-sound-switches:deep:mate-score", fmt.Sprintf("depth %d root value %d, without IID/PVS %d", depth, res.BestValue, base), rep)
				}
			}
		}
	}
}

// c06Deep: the differential clause at a depth where mate-distance bounds matter (forced mates of several lengths in
// one tree): two heavy pieces against the bare king, quiescence on, depth 5 (thorough 6); the root value must be the
// same for the 8 combinations of MDP, PVS and killer moves (everything else off).
func c06Deep(run *vl.Run, tier string, shard, n int) {
	var fens []string
	wks := []int{35} // d5
	grid := []int{45, 46, 54, 61, 5, 22, 30} // f6 g6 g7 f8 f1 g3 g4
	bks := []int{11, 12, 3, 59, 51} // d2 e2 d1 d8 d7
	depth := 5
	if tier == "thorough" {
		wks = []int{35, 28, 18}
		grid = []int{45, 46, 54, 61, 5, 22, 30, 47, 63, 7, 15}
		bks = []int{11, 12, 3, 59, 51, 0, 56, 31, 24}
		depth = 6
	}
	for _, wk := range wks {
		for i, a := range grid {
			for _, b := range grid[i+1:] {
				for _, bk := range bks {
					for _, kinds := range [][2]int8{{refchess.Queen, refchess.Queen}, {refchess.Queen, refchess.Rook}} {
						var pos refchess.Pos
						pos.EP, pos.Full, pos.White = -1, 1, true
						if wk == a || wk == b || wk == bk || a == bk || b == bk {
							continue
						}
						pos.B[wk], pos.B[bk], pos.B[a], pos.B[b] = refchess.King, -refchess.King, kinds[0], kinds[1]
						if pos.Valid() && len(pos.LegalMoves()) > 0 {
							fens = append(fens, pos.FEN())
						}
					}
				}
			}
		}
	}
	step := 1
	if tier != "thorough" {
		step = len(fens)/24 + 1 // quick tier: 24 positions spread over the family
	}
	for i := 0; i < len(fens); i += step {
		if (i/step)%n != shard || run.Expired() {
			continue
		}
		f := fens[i]
		var base Value
		for mask := 0; mask < 8; mask++ {
			cfg := soundCfg(0, true)
			cfg["UseMDP"], cfg["UsePVS"], cfg["UseKiller"] = mask&1 != 0, mask&2 != 0, mask&4 != 0
			cfg.apply()
			s := search.NewSearch()
			s.SetUciHandler(&capDriver{})
			var res search.Result
			msg, pan := vl.Guard(func() { res = runSearch(s, casePos(f), search.Limits{Depth: depth}) })
			run.AddStates(1)
			run.Count("deep_differential_searches", 1)
			rep := map[string]interface{}{"kind": "search", "fen": f, "depth": depth, "config": fmt.Sprintf("quiescence, MDP=%v PVS=%v killer=%v, all else off", mask&1 != 0, mask&2 != 0, mask&4 != 0)}
			if pan {
				run.Violate("search-panic", msg, rep)
				continue
			}
			run.AddTransitions(int64(s.NodesVisited()))
			if mask == 0 {
				base = res.BestValue
			} else if res.BestValue != base {
				rep["value"], rep["plain_alphabeta_value"] = int(res.BestValue), int(base)
				cls := "quiescence-value-depends-on-sound-switches:deep"
				if res.BestValue.IsCheckMateValue() || base.IsCheckMateValue() {
					cls += ":mate-score"
				}
				run.Violate(cls, fmt.Sprintf("depth %d root value %d, plain alpha-beta %d", depth, res.BestValue, base), rep)
			}
		}
	}
}

// c06Histories: searches of case f on a Search instance whose hash table was filled by earlier searches.
func c06Histories(run *vl.Run, ctx *mmCtx, f string, cfgName string, qs bool, maxDepth int, mm, plain func(string, int) (Value, bool)) {
	check := func(s *search.Search, c string, d int, hist string, want Value) {
		p := casePos(c)
		var res search.Result
		msg, pan := vl.Guard(func() { res = runSearch(s, p, search.Limits{Depth: d}) })
		run.AddStates(1)
		run.Count("searches_on_a_filled_hash_table", 1)
		rep := map[string]interface{}{"kind": "search", "fen": c, "depth": d, "config": cfgName, "history": hist}
		if pan {
			run.Violate("search-panic", msg, rep)
			return
		}
		run.AddTransitions(int64(s.NodesVisited()))
		if res.BestValue == want {
			return
		}
		rep["value"], rep["value_on_a_fresh_instance"] = int(res.BestValue), int(want)
		q := casePos(c)
		if treeHasClamp(q, ctx.mg, d+2, 0) {
			run.Violate(keyClamp, whatClamp, rep)
			return
		}
		run.Violate("value-depends-on-hash-table-history", fmt.Sprintf("depth %d value %d on a Search that searched before (%s), %d on a fresh one", d, res.BestValue, hist, want), rep)
	}
	ref := func(c string, d int) (Value, bool) {
		if qs {
			return plain(c, d)
		}
		return mm(c, d)
	}
	// (a) deeper search of the same position first
	s := search.NewSearch()
	s.SetUciHandler(&capDriver{})
	if _, pan := vl.Guard(func() { runSearch(s, casePos(f), search.Limits{Depth: maxDepth + 1}) }); pan {
		return
	}
	for d := 1; d <= maxDepth; d++ {
		if want, ok := ref(f, d); ok {
			check(s, f, d, fmt.Sprintf("depth %d search of the same position", maxDepth+1), want)
		}
	}
	// (b) game continuation: search, play the best move and the reply found, search the new position with the same instance
	s = search.NewSearch()
	s.SetUciHandler(&capDriver{})
	var first search.Result
	if _, pan := vl.Guard(func() { first = runSearch(s, casePos(f), search.Limits{Depth: maxDepth + 1}) }); pan || first.BestMove == MoveNone {
		return
	}
	c := caseAppend(f, first.BestMove.StringUci())
	if first.PonderMove != MoveNone {
		c = caseAppend(c, first.PonderMove.StringUci())
	}
	r, _, err := caseRef(c)
	if err != nil || len(r.LegalMoves()) == 0 || caseRootIsDrawn(c) {
		return
	}
	// reference values of the continuation on a fresh instance in the plain configuration (quiescence) or by minimax
	for d := 1; d <= maxDepth; d++ {
		var want Value
		if qs {
			saved := currentCfg()
			soundCfg(0, true).apply()
			fs := search.NewSearch()
			fs.SetUciHandler(&capDriver{})
			want = runSearch(fs, casePos(c), search.Limits{Depth: d}).BestValue
			saved.apply()
		} else {
			dd := d
			if len(r.LegalMoves()) == 1 {
				dd = 1
			}
			want = ctx.minimax(casePos(c), dd, 0)
		}
		check(s, c, d, "game continuation after a depth "+fmt.Sprint(maxDepth+1)+" search two plies earlier", want)
	}
}
