package main

import (
	"fmt"
	"sync/atomic"

	"github.com/frankkopp/FrankyGo/internal/position"
	"github.com/frankkopp/FrankyGo/internal/search"
	. "github.com/frankkopp/FrankyGo/internal/types"

	"github.com/frankkopp/FrankyGo/verif/eng"
	"github.com/frankkopp/FrankyGo/verif/refchess"
	"github.com/frankkopp/FrankyGo/verif/space"
	"github.com/frankkopp/FrankyGo/verif/vl"
)

func init() { registry["C07"] = c07 }

var pruningSwitches = []string{"UseFP", "UseLmp", "UseLmr", "UseNullMove", "UseRazoring", "UseRFP", "UseQFP"}

// c07 current search context (one search at a time per goroutine is not possible with a global hook, so
// the hook looks the context up by the address of the position it is called with... the engine passes the
// search's own position copy, which differs per search: we key on the root FEN stored per Search instead).
type c07ctx struct {
	fen, cfg, limit string
}

// the search in progress (one at a time per worker process, so that a classification can be attributed)
var c07cur *c07ctx

func c07(tier string, args []string) int {
	run := vl.NewRun("C07", tier)
	run.Rule("every node classified as mate or stalemate (hook at the three classification sites) by searches of every position of the set x depth 1..D x the full 2^7 cube of pruning switches (FP, LMP, LMR, null move, razoring, RFP, QFP) around the default configuration plus all-off; refchess decides whether the node really has no legal move and is in check; converse clause on terminal roots")
	refSelfTest(run)
	baseSearchConfig()
	def := currentCfg()
	var cfgs []cfgSnapshot
	for mask := 0; mask < 1<<uint(len(pruningSwitches)); mask++ {
		c := def
		for i, n := range pruningSwitches {
			c = c.with(n, mask&(1<<uint(i)) != 0)
		}
		cfgs = append(cfgs, c)
	}
	allOff := cfgSnapshot{}
	for n := range def {
		allOff[n] = false
	}
	cfgs = append(cfgs, allOff)
	maxDepth, nTest := 3, 40
	small := smallSearchPositions(2)
	if tier == "thorough" {
		maxDepth, nTest = 4, 300
		small = smallSearchPositions(1)
	}
	shard, n, worker := vl.WorkerShard()
	if !worker {
		run.Set("configurations", len(cfgs))
		return run.RunWorkers(32)
	}
	run.SetDeadline(budget(tier))
	var fens, terminal []string
	for i, f := range append(append([]string{}, small...), testdataFens(nTest)...) {
		r, err := refchess.ParseFEN(f)
		if err != nil || !r.Valid() || r.Half >= 100 {
			continue
		}
		if len(r.LegalMoves()) == 0 {
			terminal = append(terminal, f)
			continue
		}
		if tier != "thorough" && i < len(small) && i%4 != 0 {
			continue // quick tier: every fourth small position
		}
		fens = append(fens, f)
	}
	trapLevel := 0
	if tier == "thorough" {
		trapLevel = 1
	}
	fens = append(fens, stalemateTraps(trapLevel)...)
	// a double step that gives check and can only be answered by capturing that pawn en passant (one ply below the root)
	epKinds := []int8{space.R}
	if tier == "thorough" {
		epKinds = []int8{space.B, space.R, space.N, space.Q}
	}
	fens = append(fens, space.EpEvasionRoots(epKinds, 1)...)
	// the draw rules inside the tree (a move into a draw is a searched move): clocks 97..99 and shuffle histories
	drawStep := 24
	if tier == "thorough" {
		drawStep = 4
	}
	for _, f := range drawCases(append([]string{}, fens...), drawStep, false) {
		if r, _, err := caseRef(f); err == nil && len(r.LegalMoves()) > 0 && !caseRootIsDrawn(f) {
			fens = append(fens, f)
		}
	}
	// more terminal roots: all mates / stalemates of the complete two-kings-plus-queen/rook/pawn family
	for _, f := range smallSearchPositions(1) {
		if r := refchess.MustFEN(f); r.Valid() && len(r.LegalMoves()) == 0 {
			terminal = append(terminal, f)
		}
	}
	var mates, stalemates, nodes int64
	// the hook: called on the search goroutine with the search's live position
	search.VerifOnTerminal = func(p *position.Position, kind string, ply int) {
		r := eng.RefOfEngine(p)
		legal := len(r.LegalMoves())
		inCheck := r.InCheck(r.White)
		if kind == "stalemate" {
			atomic.AddInt64(&stalemates, 1)
		} else {
			atomic.AddInt64(&mates, 1)
		}
		ok := legal == 0 && inCheck == (kind != "stalemate")
		if ok {
			return
		}
		ctx := c07cur
		rep := map[string]interface{}{"kind": "search-node", "node_fen": r.FEN(), "classified_as": kind, "legal_moves": legal, "in_check": inCheck, "ply": ply}
		if ctx != nil {
			rep["root_fen"], rep["config"], rep["limit"] = ctx.fen, ctx.cfg, ctx.limit
		}
		cls := fmt.Sprintf("%s-scored-with-legal-moves", kind)
		if legal == 0 {
			cls = fmt.Sprintf("%s-scored-but-check-status-differs", kind)
		}
		run.Violate(cls, fmt.Sprintf("node scored as %s but it has %d legal moves (in check: %v)", kind, legal, inCheck), rep)
	}
	vl.SetWorkers(1)
	for ci, cfg := range cfgs {
		if ci%n != shard {
			continue
		}
		cfg.apply()
		cfgName := cfg.diff(def)
		vl.Parallel(len(fens), func(fi, _ int) {
			if run.Expired() {
				return
			}
			fen := fens[fi]
			s := search.NewSearch()
			s.SetUciHandler(&capDriver{})
			for d := 1; d <= maxDepth; d++ {
				p := casePos(fen)
				// the search works on its own copy of the position; register the copy by running StartSearch
				// through a wrapper that knows the address: StartSearch copies by value, so we key all live
				// searches of this goroutine by root FEN instead (only used for reporting)
				c07cur = &c07ctx{fen: fen, cfg: cfgName, limit: fmt.Sprintf("depth %d", d)}
				msg, pan := vl.Guard(func() { runSearch(s, p, search.Limits{Depth: d}) })
				if pan {
					run.Violate("search-panic", msg, map[string]interface{}{"fen": fen, "config": cfgName, "depth": d})
					return
				}
				atomic.AddInt64(&nodes, int64(s.NodesVisited()))
				run.AddStates(1)
			}
		})
		// the stop arrives mid-search: every node limit 1..N on the test positions (first configuration of the cube, the
		// default configuration and all-off) - a node must not be classified because the search was stopped before it
		// could try a move
		if ci == 0 || ci == len(cfgs)-2 || ci == len(cfgs)-1 {
			maxNodes := 300
			if tier == "thorough" {
				maxNodes = 1500
			}
			tf := testdataFens(nTest)
			vl.Parallel(len(tf), func(fi, _ int) {
				s := search.NewSearch()
				s.SetUciHandler(&capDriver{})
				for nn := 1; nn <= maxNodes && !run.Expired(); nn++ {
					c07cur = &c07ctx{fen: tf[fi], cfg: cfgName, limit: fmt.Sprintf("nodes %d", nn)}
					msg, pan := vl.Guard(func() { runSearch(s, casePos(tf[fi]), search.Limits{Nodes: uint64(nn)}) })
					if pan {
						run.Violate("search-panic", msg, map[string]interface{}{"fen": tf[fi], "config": cfgName, "nodes": nn})
						return
					}
					atomic.AddInt64(&nodes, int64(s.NodesVisited()))
					run.AddStates(1)
					run.Count("node_limited_searches", 1)
				}
			})
		}
		// converse clause: terminal roots
		for _, f := range terminal {
			r := refchess.MustFEN(f)
			p, _ := position.NewPositionFen(f)
			s := search.NewSearch()
			s.SetUciHandler(&capDriver{})
			res := runSearch(s, p, search.Limits{Depth: 2})
			want := ValueDraw
			cls := "terminal-root:stalemate-value"
			if r.InCheck(r.White) {
				want = -ValueCheckMate
				cls = "terminal-root:mate-value"
			}
			run.AddStates(1)
			st := s.Statistics()
			if res.BestValue != want || res.BestMove != MoveNone {
				run.Violate(cls, fmt.Sprintf("terminal root reported with value %d move %s, want value %d and no move", res.BestValue, res.BestMove.StringUci(), want), map[string]interface{}{"fen": f, "config": cfgName})
			} else if (want == ValueDraw && st.Stalemates != 1) || (want != ValueDraw && st.Checkmates != 1) {
				run.Violate("terminal-root:statistics", "terminal root not counted in Statistics()", map[string]interface{}{"fen": f, "config": cfgName})
			}
		}
		run.Count("terminal_roots", int64(len(terminal)))
		run.SampleCat("config", map[string]interface{}{"config": cfgName, "positions": len(fens), "max_depth": maxDepth})
	}
	run.AddTransitions(nodes)
	run.Count("mate_classifications", mates)
	run.Count("stalemate_classifications", stalemates)
	run.Set("positions_per_config", len(fens))
	return run.FinishWorker()
}
