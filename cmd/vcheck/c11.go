package main

import (
	"fmt"
	"sort"
	"strings"
	"sync"
	"sync/atomic"

	"github.com/frankkopp/FrankyGo/internal/position"
	"github.com/frankkopp/FrankyGo/internal/search"
	tt "github.com/frankkopp/FrankyGo/internal/transpositiontable"
	. "github.com/frankkopp/FrankyGo/internal/types"

	"github.com/frankkopp/FrankyGo/verif/vl"
)

func init() { registry["C11"] = c11 }

// ---- reference model: a map from slot index to the stored entry + the stated replacement rule ----

type mEntry struct {
	Key   uint64
	Move  Move // move part only
	Val   Value
	Depth int8
	Age   int // unbounded in the model
	Typ   ValueType
}

type ttModel struct {
	Cap   uint64
	Slots map[uint64]mEntry
}

func newModel(cap uint64) *ttModel { return &ttModel{Cap: cap, Slots: map[uint64]mEntry{}} }

func (m *ttModel) clone() *ttModel {
	c := newModel(m.Cap)
	for k, v := range m.Slots {
		c.Slots[k] = v
	}
	return c
}

func (m *ttModel) canon() string {
	var idx []int
	for k := range m.Slots {
		idx = append(idx, int(k))
	}
	sort.Ints(idx)
	var sb strings.Builder
	fmt.Fprintf(&sb, "cap=%d", m.Cap)
	for _, i := range idx {
		e := m.Slots[uint64(i)]
		fmt.Fprintf(&sb, "|%d:%x,%x,%d,%d,%d,%d", i, e.Key, uint32(e.Move), e.Val, e.Depth, e.Age, e.Typ)
	}
	return sb.String()
}

// put: implReplaced tells whether the implementation's slot holds the new key afterwards. The statement
// permits ("only if") but does not demand a replacement on collision, so where it is permitted the
// model follows the implementation; where it is not permitted the model keeps the resident.
func (m *ttModel) put(key uint64, mv Move, depth int8, val Value, typ ValueType, implReplaced bool) {
	if m.Cap == 0 {
		return
	}
	i := key & (m.Cap - 1)
	ne := mEntry{Key: key, Move: mv.MoveOf(), Val: val, Depth: depth, Age: 1, Typ: typ}
	old, ok := m.Slots[i]
	switch {
	case !ok:
		m.Slots[i] = ne
	case old.Key != key:
		// a colliding store replaces the resident only if deeper, or equally deep and the resident has aged
		if (depth > old.Depth || (depth == old.Depth && old.Age > 1)) && implReplaced {
			m.Slots[i] = ne
		}
	default:
		m.Slots[i] = ne
	}
}

func (m *ttModel) get(key uint64, probe bool) (mEntry, bool) {
	if m.Cap == 0 {
		return mEntry{}, false
	}
	i := key & (m.Cap - 1)
	e, ok := m.Slots[i]
	if !ok || e.Key != key {
		return mEntry{}, false
	}
	if probe {
		if e.Age > 0 {
			e.Age--
		}
		m.Slots[i] = e
	}
	return e, true
}

func (m *ttModel) age(n int) {
	for k, e := range m.Slots {
		e.Age += n
		m.Slots[k] = e
	}
}

// ---- operations ----

type ttOp struct {
	Kind  string // put probe get age age126 clear resize
	Key   uint64
	Move  Move
	Depth int8
	Val   Value
	Typ   ValueType
	Cap   uint64 // resize
}

func (o ttOp) String() string {
	switch o.Kind {
	case "put":
		return fmt.Sprintf("Put(key=%#x move=%#x depth=%d value=%d type=%d)", o.Key, uint32(o.Move), o.Depth, o.Val, o.Typ)
	case "probe", "get":
		return fmt.Sprintf("%s(key=%#x)", o.Kind, o.Key)
	case "resize":
		return fmt.Sprintf("resize(slots=%d)", o.Cap)
	}
	return o.Kind
}

const ttSlots = 4

// applyBoth applies op to the implementation and the model; when check is true the results and the
// complete table state are compared. Returns a violation class or "".
func applyBoth(t *tt.TtTable, m *ttModel, o ttOp, check bool) (cls, what string) {
	var ret *tt.TtEntry
	var mret mEntry
	var mok bool
	var resizeLen uint64
	var resizeFull int
	if msg, pan := vl.Guard(func() {
		switch o.Kind {
		case "put":
			t.Put(position.Key(o.Key), o.Move, o.Depth, o.Val, o.Typ, false)
		case "probe":
			ret = t.Probe(position.Key(o.Key))
		case "get":
			ret = t.GetEntry(position.Key(o.Key))
		case "age":
			t.AgeEntries()
		case "age126":
			for i := 0; i < 126; i++ {
				t.AgeEntries()
			}
		case "clear":
			t.Clear()
		case "resize":
			t.Resize(1)
			resizeLen, resizeFull = t.Len(), t.Hashfull() // must be 0: Resize clears all entries
			// continue on a tiny table (the fresh 1 MB table shrunk to o.Cap slots)
			t.VerifShrink(o.Cap)
		}
	}); pan {
		if m.Cap == 0 && (o.Kind == "probe" || o.Kind == "get") {
			return "panic:lookup-on-zero-size-table", o.Kind + " on a table of size 0 panicked: " + msg
		}
		return "panic:" + o.Kind, o.Kind + " panicked: " + msg
	}
	switch o.Kind {
	case "put":
		replaced := false
		if m.Cap > 0 {
			if sl := t.VerifSlots(); uint64(len(sl)) == m.Cap {
				replaced = uint64(sl[o.Key&(m.Cap-1)].Key) == o.Key
			}
		}
		m.put(o.Key, o.Move, o.Depth, o.Val, o.Typ, replaced)
	case "probe":
		mret, mok = m.get(o.Key, true)
	case "get":
		mret, mok = m.get(o.Key, false)
	case "age":
		m.age(1)
	case "age126":
		m.age(126)
	case "clear":
		m.Slots = map[uint64]mEntry{}
	case "resize":
		m.Cap = o.Cap
		m.Slots = map[uint64]mEntry{}
	}
	if !check {
		return "", ""
	}
	if o.Kind == "resize" && (resizeLen != 0 || resizeFull != 0) {
		return "len:after-resize", fmt.Sprintf("after Resize all entries are cleared but Len()=%d Hashfull()=%d", resizeLen, resizeFull)
	}
	cmpEntry := func(e *tt.TtEntry, me mEntry, where string) (string, string) {
		if uint64(e.Key) != me.Key {
			return "foreign-key:" + where, fmt.Sprintf("%s: entry of key %#x where key %#x was expected", where, uint64(e.Key), me.Key)
		}
		if e.Move.MoveOf() != me.Move {
			return "move-lost:" + where, fmt.Sprintf("%s: move %#x, stored %#x", where, uint32(e.Move.MoveOf()), uint32(me.Move))
		}
		if e.Move.ValueOf() != me.Val {
			if me.Move == MoveNone {
				return "value-lost:move=none", fmt.Sprintf("%s: value %d stored together with MoveNone comes back as %d", where, me.Val, e.Move.ValueOf())
			}
			return "value-lost:" + where, fmt.Sprintf("%s: value %d, stored %d", where, e.Move.ValueOf(), me.Val)
		}
		if e.Depth != me.Depth {
			return "depth-lost:" + where, fmt.Sprintf("%s: depth %d, stored %d", where, e.Depth, me.Depth)
		}
		if e.Type != me.Typ {
			return "type-lost:" + where, fmt.Sprintf("%s: type %d, stored %d", where, e.Type, me.Typ)
		}
		// entry ages are not part of the statement (they only feed the replacement rule) and are not compared
		return "", ""
	}
	if o.Kind == "probe" || o.Kind == "get" {
		switch {
		case ret == nil && mok:
			return "lookup-miss", o.String() + " returns nothing although the key is resident"
		case ret != nil && !mok:
			return "lookup-foreign", fmt.Sprintf("%s returns an entry (key %#x) although nothing is stored for the key", o.String(), uint64(ret.Key))
		case ret != nil:
			if c, w := cmpEntry(ret, mret, "returned"); c != "" {
				return c, w
			}
		}
	}
	// complete state
	slots := t.VerifSlots()
	capN, _ := t.VerifCapacity()
	if capN != m.Cap || uint64(len(slots)) != m.Cap {
		return "capacity", fmt.Sprintf("capacity %d (len %d), model %d", capN, len(slots), m.Cap)
	}
	occupied := 0
	for i := range slots {
		me, ok := m.Slots[uint64(i)]
		if slots[i].Key == 0 {
			if ok {
				return "slot-lost", fmt.Sprintf("slot %d empty, model has key %#x", i, me.Key)
			}
			continue
		}
		occupied++
		if !ok {
			return "slot-ghost", fmt.Sprintf("slot %d holds key %#x, model empty", i, uint64(slots[i].Key))
		}
		if uint64(slots[i].Key) != me.Key {
			return "replacement-rule", fmt.Sprintf("slot %d holds key %#x, the stated replacement rule keeps %#x", i, uint64(slots[i].Key), me.Key)
		}
		if c, w := cmpEntry(&slots[i], me, "slot"); c != "" {
			return c, w
		}
	}
	if t.Len() != uint64(occupied) {
		cls := "len"
		if o.Kind == "resize" {
			cls = "len:after-resize"
		}
		return cls, fmt.Sprintf("Len()=%d but %d slots are occupied", t.Len(), occupied)
	}
	wantFull := 0
	if m.Cap > 0 {
		wantFull = 1000 * occupied / int(m.Cap)
	}
	if t.Hashfull() != wantFull {
		return "hashfull", fmt.Sprintf("Hashfull()=%d but %d of %d slots are occupied", t.Hashfull(), occupied, m.Cap)
	}
	return "", ""
}

func c11Alphabet() []ttOp {
	k1, k2, k3 := uint64(0x10), uint64(0x10+ttSlots), uint64(0x11) // k1,k2 collide in the index bits; k3 elsewhere
	k4 := k1 + 1<<32                                                // equal to k1 in the low 32 bits (and the index bits)
	m1 := CreateMove(SqE2, SqE4, Normal, PtNone)
	junk := CreateMoveValue(SqG1, SqF3, Normal, PtNone, Value(1234)) // carries sort bits
	var ops []ttOp
	for _, k := range []uint64{k1, k2, k3, k4} {
		for _, mv := range []Move{MoveNone, m1, junk} {
			if k == k4 && mv != m1 {
				continue
			}
			for _, d := range []int8{0, 1, 2} {
				for _, v := range []Value{5, -9999} {
					for _, ty := range []ValueType{EXACT, BETA} {
						if mv == junk && (v != 5 || ty != EXACT) {
							continue
						}
						if mv == MoveNone && (d != 1 || ty != EXACT) {
							continue
						}
						ops = append(ops, ttOp{Kind: "put", Key: k, Move: mv, Depth: d, Val: v, Typ: ty})
					}
				}
			}
		}
		ops = append(ops, ttOp{Kind: "probe", Key: k}, ttOp{Kind: "get", Key: k})
	}
	ops = append(ops, ttOp{Kind: "age"}, ttOp{Kind: "age126"}, ttOp{Kind: "clear"}, ttOp{Kind: "resize", Cap: ttSlots}, ttOp{Kind: "resize", Cap: 2}, ttOp{Kind: "put", Key: k1, Move: m1, Depth: 127, Val: 10000, Typ: ALPHA})
	return ops
}

// c11BFS: breadth-first search over operation sequences, de-duplicated on the model state (sound because
// the implementation state is compared with the model state after every step).
func c11BFS(run *vl.Run, maxDepth int) {
	ops := c11Alphabet()
	type node struct {
		path []int
	}
	seen := map[string]bool{newModel(ttSlots).canon(): true}
	frontier := []node{{nil}}
	var transitions int64
	var mu sync.Mutex
	run.Set("tt_alphabet_size", len(ops))
	for depth := 1; depth <= maxDepth && len(frontier) > 0; depth++ {
		var next []node
		vl.Parallel(len(frontier), func(fi, n int) {
			nd := frontier[fi]
			table := tt.NewTtTable(1)
			var localNext []node
			var localKeys []string
			for oi, o := range ops {
				if run.Expired() {
					return
				}
				table.VerifShrink(ttSlots)
				m := newModel(ttSlots)
				broken := false
				for _, pi := range nd.path {
					if c, _ := applyBoth(table, m, ops[pi], false); c != "" {
						broken = true // a panicking prefix was already reported when it was the last step
						break
					}
				}
				if broken {
					continue
				}
				atomic.AddInt64(&transitions, 1)
				cls, what := applyBoth(table, m, o, true)
				if cls != "" {
					var names []string
					for _, pi := range nd.path {
						names = append(names, ops[pi].String())
					}
					names = append(names, o.String())
					run.Violate(cls, what, map[string]interface{}{"kind": "ops", "slots": ttSlots, "ops": names})
					continue // do not explore beyond a disagreeing state
				}
				localNext = append(localNext, node{append(append([]int{}, nd.path...), oi)})
				localKeys = append(localKeys, m.canon())
			}
			mu.Lock()
			for i, k := range localKeys {
				if !seen[k] {
					seen[k] = true
					next = append(next, localNext[i])
				}
			}
			mu.Unlock()
		})
		run.Set(fmt.Sprintf("bfs_states_after_depth_%d", depth), len(seen))
		frontier = next
		run.Set("bfs_depth_completed", depth)
	}
	run.AddStates(int64(len(seen)))
	run.AddTransitions(transitions)
	run.Sample(map[string]interface{}{"ops": []string{ops[0].String(), "probe(key=0x14)", "age", ops[len(ops)-1].String()}})
}

// c11Values: every storable value with a move, through the table, with the mate-distance correction for every ply.
func c11Values(run *vl.Run) {
	m1 := CreateMove(SqE2, SqE4, Normal, PtNone)
	var cases int64
	vl.Parallel(128, func(ply, n int) {
		table := tt.NewTtTable(1)
		var local int64
		for v := -10000; v <= 10000; v++ {
			val := Value(v)
			if val.IsCheckMateValue() && absInt(v)+ply > 10000 {
				continue // a mate score found at this ply is at least ply plies away from the root
			}
			local++
			stored := search.VerifValueToTT(val, ply)
			key := position.Key(0x1000 + uint64(v+10000))
			table.Put(key, m1, int8(ply%128), stored, ValueType(1+v%3*0), false)
			e := table.Probe(key)
			if e == nil {
				run.Violate("value-sweep:miss", "stored entry not found", map[string]interface{}{"value": v, "ply": ply})
				continue
			}
			got := search.VerifValueFromTT(e.Move.ValueOf(), ply)
			if got != val || e.Move.MoveOf() != m1 {
				run.Violate("value-sweep:roundtrip", fmt.Sprintf("value %d stored at ply %d comes back as %d", v, ply, got), map[string]interface{}{"value": v, "ply": ply})
			}
		}
		atomic.AddInt64(&cases, local)
	})
	run.AddEvals(cases)
	run.Set("value_sweep_cases", cases)
}

// c11Sizes: capacity = largest power of two of 16-byte entries fitting the requested size.
func c11Sizes(run *vl.Run, maxMB int) {
	var sizes []int
	for s := 0; s <= 64 && s <= maxMB; s++ {
		sizes = append(sizes, s)
	}
	for k := 7; (1 << uint(k)) <= maxMB; k++ {
		sizes = append(sizes, 1<<uint(k)-1, 1<<uint(k))
		if 1<<uint(k)+1 <= maxMB {
			sizes = append(sizes, 1<<uint(k)+1)
		}
	}
	for _, s := range sizes {
		want := uint64(0)
		bytes := uint64(s) << 20
		for n := uint64(1); n*16 <= bytes; n <<= 1 {
			want = n
		}
		var got uint64
		msg, pan := vl.Guard(func() {
			t := tt.NewTtTable(s)
			got, _ = t.VerifCapacity()
		})
		run.AddEvals(1)
		if pan {
			run.Violate("size:panic", fmt.Sprintf("NewTtTable(%d) panicked: %s", s, msg), map[string]interface{}{"size_mb": s})
			continue
		}
		if got != want {
			run.Violate("size:capacity", fmt.Sprintf("NewTtTable(%d MB) has %d slots, largest power of two fitting is %d", s, got, want), map[string]interface{}{"size_mb": s})
		}
	}
	run.Set("sizes_checked", len(sizes))
}

// c11RealSize: operation sequences on tables of real size, where Resize really goes through the
// capacity computation (same capacity: 2 MB -> 3 MB; other capacity: 1 MB, 4 MB) instead of the 4-slot shortcut.
func c11RealSize(run *vl.Run, depth int) {
	capOf := func(mb int) uint64 {
		var c uint64
		for n := uint64(1); n*16 <= uint64(mb)<<20; n <<= 1 {
			c = n
		}
		return c
	}
	kA := uint64(0x1234)
	kB := kA + capOf(2) // collides with kA at 2 and 3 MB
	m1 := CreateMove(SqE2, SqE4, Normal, PtNone)
	type rop struct {
		name string
		f    func(t *tt.TtTable, m *ttModel) (string, string)
	}
	lookup := func(key uint64, probe bool) func(t *tt.TtTable, m *ttModel) (string, string) {
		return func(t *tt.TtTable, m *ttModel) (string, string) {
			var e *tt.TtEntry
			if probe {
				e = t.Probe(position.Key(key))
			} else {
				e = t.GetEntry(position.Key(key))
			}
			me, ok := m.get(key, probe)
			switch {
			case e == nil && ok:
				return "lookup-miss", "resident key not found"
			case e != nil && !ok:
				return "lookup-stale-after-resize-or-clear", fmt.Sprintf("lookup of key %#x returns an entry (depth %d) although nothing is stored for it", key, e.Depth)
			case e != nil && (uint64(e.Key) != me.Key || e.Depth != me.Depth || e.Move.ValueOf() != me.Val):
				return "lookup-wrong-entry", "returned entry differs from the stored one"
			}
			return "", ""
		}
	}
	put := func(key uint64, d int8) func(t *tt.TtTable, m *ttModel) (string, string) {
		return func(t *tt.TtTable, m *ttModel) (string, string) {
			t.Put(position.Key(key), m1, d, 7, EXACT, false)
			replaced := false
			if e := t.GetEntry(position.Key(key)); e != nil {
				replaced = true
			}
			m.put(key, m1, d, 7, EXACT, replaced)
			if _, ok := m.get(key, false); ok != replaced {
				return "replacement-rule", "a store that the stated rule does not permit replaced the resident entry (or a store into an empty slot was dropped)"
			}
			return "", ""
		}
	}
	resize := func(mb int) func(t *tt.TtTable, m *ttModel) (string, string) {
		return func(t *tt.TtTable, m *ttModel) (string, string) {
			t.Resize(mb)
			m.Cap = capOf(mb)
			m.Slots = map[uint64]mEntry{}
			if c, _ := t.VerifCapacity(); c != m.Cap {
				return "size:capacity", fmt.Sprintf("Resize(%d) gives %d slots, expected %d", mb, c, m.Cap)
			}
			return "", ""
		}
	}
	ops := []rop{{"Put(kA,d2)", put(kA, 2)}, {"Put(kB,d1)", put(kB, 1)}, {"Put(kB,d3)", put(kB, 3)}, {"Probe(kA)", lookup(kA, true)}, {"Probe(kB)", lookup(kB, true)},
		{"GetEntry(kA)", lookup(kA, false)}, {"Resize(2)", resize(2)}, {"Resize(3)", resize(3)}, {"Resize(1)", resize(1)}, {"Resize(4)", resize(4)},
		{"Clear", func(t *tt.TtTable, m *ttModel) (string, string) { t.Clear(); m.Slots = map[uint64]mEntry{}; return "", "" }},
		{"AgeEntries", func(t *tt.TtTable, m *ttModel) (string, string) { t.AgeEntries(); m.age(1); return "", "" }}}
	var seqs [][]int
	var gen func(cur []int)
	gen = func(cur []int) {
		if len(cur) > 0 {
			seqs = append(seqs, append([]int{}, cur...))
		}
		if len(cur) == depth {
			return
		}
		for i := range ops {
			gen(append(cur, i))
		}
	}
	gen(nil)
	var steps int64
	vl.Parallel(len(seqs), func(si, _ int) {
		sq := seqs[si]
		t := tt.NewTtTable(2)
		m := newModel(capOf(2))
		var names []string
		for _, oi := range sq {
			names = append(names, ops[oi].name)
			var cls, what string
			if msg, pan := vl.Guard(func() { cls, what = ops[oi].f(t, m) }); pan {
				cls, what = "panic:real-size", msg
			}
			atomic.AddInt64(&steps, 1)
			if cls == "" {
				// count and fill level always equal the number of occupied slots
				occ := 0
				for _, e := range t.VerifSlots() {
					if e.Key != 0 {
						occ++
					}
				}
				if uint64(occ) != t.Len() || occ != len(m.Slots) {
					cls, what = "len:real-size", fmt.Sprintf("Len()=%d, %d slots occupied, %d entries stored since the last clear/resize", t.Len(), occ, len(m.Slots))
				}
			}
			if cls != "" {
				run.Violate(cls, what, map[string]interface{}{"kind": "ops-real-size", "start": "NewTtTable(2)", "ops": names})
				return
			}
		}
	})
	run.AddTransitions(steps)
	run.Set("real_size_sequences", len(seqs))
	run.Sample(map[string]interface{}{"real_size_ops": []string{"Put(kA,d2)", "Resize(3)", "Probe(kA)"}})
}

func c11(tier string, args []string) int {
	run := vl.NewRun("C11", tier)
	run.Rule("explicit-state BFS over sequences of Put/Probe/GetEntry/AgeEntries/Clear/Resize on a 4-slot table with colliding keys, de-duplicated on the reference-model state, implementation slots/Len/Hashfull compared with the model after every step; complete sweep of all 20001 values x 128 plies through Put/Probe and the mate-distance correction; capacity for all sizes")
	run.Assume("key 0 is the implementation's documented empty-slot marker and is not used as a position key")
	run.SetDeadline(budget(tier))
	depth, maxMB := 4, 64
	if tier == "thorough" {
		depth, maxMB = 5, 4096
	}
	c11BFS(run, depth)
	c11Values(run)
	c11Sizes(run, maxMB)
	if tier == "thorough" {
		c11RealSize(run, 4)
	} else {
		c11RealSize(run, 3)
	}
	// zero-size table lookups
	for _, kind := range []string{"probe", "get", "put"} {
		t := tt.NewTtTable(0)
		m := newModel(0)
		if c, w := applyBoth(t, m, ttOp{Kind: kind, Key: 0x10, Move: CreateMove(SqE2, SqE4, Normal, PtNone), Depth: 1, Val: 5, Typ: EXACT}, true); c != "" {
			run.Violate(c, w, map[string]interface{}{"kind": "ops", "slots": 0, "ops": []string{kind}})
		}
	}
	return run.Finish()
}
