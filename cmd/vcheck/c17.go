package main

import (
	"fmt"
	"strings"
	"sync/atomic"

	"github.com/frankkopp/FrankyGo/internal/movegen"
	"github.com/frankkopp/FrankyGo/internal/position"
	. "github.com/frankkopp/FrankyGo/internal/types"

	"github.com/frankkopp/FrankyGo/verif/eng"
	"github.com/frankkopp/FrankyGo/verif/refchess"
	"github.com/frankkopp/FrankyGo/verif/space"
	"github.com/frankkopp/FrankyGo/verif/vl"
)

func init() { registry["C17"] = c17 }

// c17Encoding: complete sweep of the packed move encoding.
func c17Encoding(run *vl.Run, full bool) {
	var values []int
	if full {
		for v := -32768; v <= 32767; v++ {
			values = append(values, v)
		}
	} else {
		seen := map[int]bool{}
		add := func(v int) {
			if v >= -32768 && v <= 32767 && !seen[v] {
				seen[v] = true
				values = append(values, v)
			}
		}
		for _, c := range []int{-32768, int(ValueNA), int(-ValueInf), int(ValueMin), -4001, -2000, 0, 2000, int(ValueMax), int(ValueInf), 32767} {
			for d := -23; d <= 23; d++ {
				add(c + d)
			}
		}
	}
	var cases int64
	vl.Parallel(64, func(from, n int) {
		var local int64
		for to := 0; to < 64; to++ {
			for ty := 0; ty < 4; ty++ {
				for pr := Knight; pr <= Queen; pr++ {
					fieldIdx := (from*64+to)*16 + ty*4 + int(pr-Knight)
					vals := values
					if !full && fieldIdx%256 == 7 {
						vals = nil // this field combination gets the complete value range below
					}
					m0 := CreateMove(Square(from), Square(to), MoveType(ty), pr)
					checkFields := func(m Move, v int, how string) bool {
						if m.From() != Square(from) || m.To() != Square(to) || m.MoveType() != MoveType(ty) || m.PromotionType() != pr || m.MoveOf() != m0 {
							run.Violate("encoding:fields-"+how, "move fields not retrieved as stored", map[string]interface{}{"from": from, "to": to, "type": ty, "prom": int(pr), "value": v})
							return false
						}
						return true
					}
					local++
					if m0 != MoveNone {
						checkFields(m0, 0, "createmove")
					}
					sweep := func(v int) {
						local++
						mv := CreateMoveValue(Square(from), Square(to), MoveType(ty), pr, Value(v))
						if mv.MoveOf() != m0 {
							run.Violate("encoding:createmovevalue-moveof", "CreateMoveValue changes the move part", map[string]interface{}{"from": from, "to": to, "type": ty, "prom": int(pr), "value": v})
							return
						}
						if mv.ValueOf() != Value(v) {
							run.Violate("encoding:createmovevalue-valueof", fmt.Sprintf("ValueOf()=%d after CreateMoveValue(..., %d)", mv.ValueOf(), v), map[string]interface{}{"from": from, "to": to, "type": ty, "prom": int(pr), "value": v})
							return
						}
						if m0 == MoveNone {
							m := m0
							m.SetValue(Value(v))
							if m != MoveNone { // documented: no value can be stored on MoveNone
								run.Violate("encoding:movenone-setvalue", "SetValue changed MoveNone", map[string]interface{}{"value": v})
							}
							return
						}
						checkFields(mv, v, "createmovevalue")
						m := m0
						r := m.SetValue(Value(v))
						if r != m || m.ValueOf() != Value(v) || !checkFields(m, v, "setvalue") {
							run.Violate("encoding:setvalue", fmt.Sprintf("SetValue(%d) then ValueOf()=%d", v, m.ValueOf()), map[string]interface{}{"from": from, "to": to, "type": ty, "prom": int(pr), "value": v})
							return
						}
						// overwrite with another value: move part untouched
						m.SetValue(Value(-v / 2))
						if m.MoveOf() != m0 || m.ValueOf() != Value(-v/2) {
							run.Violate("encoding:setvalue-overwrite", "second SetValue does not replace the value cleanly", map[string]interface{}{"from": from, "to": to, "type": ty, "prom": int(pr), "value": v})
						}
					}
					if vals == nil {
						for v := -32768; v <= 32767; v++ {
							sweep(v)
						}
					} else {
						for _, v := range vals {
							sweep(v)
						}
					}
				}
			}
		}
		atomic.AddInt64(&cases, local)
	})
	run.AddEvals(cases)
	run.Set("encoding_cases", cases)
	run.Set("encoding_complete_2^32", full)
	run.Sample(map[string]interface{}{"encoding": "from=e2 to=e4 type=Normal prom=Knight value=-15001..15000"})
}

type sanVariant struct{ x, eq bool }

var decorations = []string{"", "+", "#", "!", "?!"}

func c17State(w *wctx, p *position.Position, r *refchess.Pos) {
	run := w.run
	legalRef := r.LegalMoves()
	legalEng := append([]Move{}, (*w.mg.GenerateLegalMoves(p, movegen.GenAll))...)
	for _, m := range legalRef {
		em, ok := findEngMove(legalEng, eng.TupleOfRef(m))
		if !ok {
			continue // C01 reports it
		}
		rep := func(s string) map[string]interface{} {
			return w.replayOf(r, map[string]interface{}{"move": m.String(), "string": s})
		}
		run.AddTransitions(1)
		// the parsing generator is used like a search or a notation writer uses it between two look-ups: it generates the
		// moves of the position after this move, and the captures of this position (look-ups must not depend on it)
		p.DoMove(em)
		w.mg2.GenerateLegalMoves(p, movegen.GenAll)
		p.UndoMove()
		// UCI round trip (engine's own string, and the lower-case promotion spelling)
		for _, u := range []string{em.StringUci(), strings.ToLower(em.StringUci())} {
			run.AddEvals(1)
			if got := w.mg2.GetMoveFromUci(p, u); got.MoveOf() != em.MoveOf() {
				run.Violate("uci-roundtrip:"+kindNames[m.Kind], "GetMoveFromUci(StringUci(m)) != m: got "+got.StringUci(), rep(u))
			}
		}
		if em.StringUci() != m.UciUpper() {
			run.Violate("stringuci:"+kindNames[m.Kind], "StringUci differs from coordinate notation: "+em.StringUci(), rep(m.UciUpper()))
		}
		if !w.mg2.ValidateMove(p, em) {
			run.Violate("validatemove", "ValidateMove rejects a legal move", rep(em.StringUci()))
		}
		w.mg2.GenerateLegalMoves(p, movegen.GenNonQuiet)
		// SAN in all decoration variants
		base := map[string]bool{}
		for _, v := range []sanVariant{{true, true}, {true, false}, {false, true}, {false, false}} {
			base[r.SANOpts(m, v.x, v.eq, false)] = true
		}
		base[r.SAN(m)] = true
		canon := r.SANOpts(m, true, true, false)
		for s := range base {
			for _, d := range decorations {
				if run.Tier != "thorough" && d != "" && s != canon {
					continue // quick tier: decorations on the canonical spelling only
				}
				san := s
				if !strings.HasSuffix(s, "+") && !strings.HasSuffix(s, "#") {
					san = s + d
				} else if d != "" {
					continue
				}
				run.AddEvals(1)
				if got := w.mg2.GetMoveFromSan(p, san); got.MoveOf() != em.MoveOf() {
					cls := "san-roundtrip:" + kindNames[m.Kind]
					run.Violate(cls, "GetMoveFromSan("+san+") != "+m.String()+": got "+got.StringUci(), rep(san))
				}
			}
		}
		// under-disambiguated SAN of an ambiguous move must give no move
		if full := r.SANOpts(m, true, true, false); len(full) >= 4 && m.Kind != refchess.Castling {
			pc := r.B[m.From]
			if pc < 0 {
				pc = -pc
			}
			if pc != refchess.Pawn && pc != refchess.King {
				plain := string(full[0]) + refchess.SqName(m.To)
				if r.IsCapture(m) {
					plain = string(full[0]) + "x" + refchess.SqName(m.To)
				}
				if plain != full { // the minimal SAN needed a disambiguator, so the plain form is ambiguous
					run.Count("ambiguous_san_cases", 1)
					run.AddEvals(1)
					if got := w.mg2.GetMoveFromSan(p, plain); got != MoveNone {
						run.Violate("san-ambiguous-accepted", "ambiguous SAN "+plain+" parsed to "+got.StringUci(), rep(plain))
					}
				}
			}
		}
	}
	// pseudo-legal but illegal moves: their UCI and SAN strings denote no legal move
	legalSet := map[eng.T]bool{}
	for _, m := range legalRef {
		legalSet[eng.TupleOfRef(m)] = true
	}
	for _, m := range r.PseudoMoves() {
		if legalSet[eng.TupleOfRef(m)] {
			continue
		}
		run.Count("illegal_pseudo_moves", 1)
		u := m.UciUpper()
		run.AddEvals(2)
		if got := w.mg2.GetMoveFromUci(p, u); got != MoveNone {
			run.Violate("uci-illegal-accepted", "UCI string of an illegal move parsed to "+got.StringUci(), w.replayOf(r, map[string]interface{}{"string": u}))
		}
		// SAN with full origin square so that it can only denote this illegal move
		pc := r.B[m.From]
		if pc < 0 {
			pc = -pc
		}
		if m.Kind == refchess.Castling || pc == refchess.Pawn {
			san := r.SANOpts(m, true, true, false)
			// a pawn SAN may also denote a legal move of another pawn; only test when no legal move shares the target
			clash := false
			for _, l := range legalRef {
				if l.To == m.To && m.Kind != refchess.Castling {
					clash = true
				}
			}
			if !clash {
				if got := w.mg2.GetMoveFromSan(p, san); got != MoveNone {
					run.Violate("san-illegal-accepted", "SAN of an illegal move parsed to "+got.StringUci(), w.replayOf(r, map[string]interface{}{"string": san}))
				}
			}
		} else {
			san := string(".PNBRQK"[pc]) + refchess.SqName(m.From)
			if r.IsCapture(m) {
				san += "x"
			}
			san += refchess.SqName(m.To)
			if got := w.mg2.GetMoveFromSan(p, san); got != MoveNone {
				run.Violate("san-illegal-accepted", "SAN of an illegal move parsed to "+got.StringUci(), w.replayOf(r, map[string]interface{}{"string": san}))
			}
		}
	}
}

// c17NonMoves: every from-to coordinate string (and promotions) that is not a legal move gives no move.
func c17NonMoves(w *wctx, p *position.Position, r *refchess.Pos) {
	legal := map[string]bool{}
	for _, m := range r.LegalMoves() {
		legal[m.UciUpper()] = true
	}
	for from := 0; from < 64; from++ {
		for to := 0; to < 64; to++ {
			for _, suffix := range []string{"", "Q", "N"} {
				u := refchess.SqName(from) + refchess.SqName(to) + suffix
				if legal[u] {
					continue
				}
				w.run.AddEvals(1)
				if got := w.mg2.GetMoveFromUci(p, u); got != MoveNone {
					w.run.Violate("uci-nonmove-accepted", "coordinate string that is no legal move parsed to "+got.StringUci(), w.replayOf(r, map[string]interface{}{"string": u}))
				}
			}
		}
	}
}

// disambiguation positions: several queens / knights / rooks able to reach the same square
var disambFens = []string{
	"k7/8/8/8/1Q1Q4/8/1Q1Q4/K7 w - - 0 1",
	"k7/8/2N1N3/1N3N2/8/1N3N2/2N1N3/K7 w - - 0 1",
	"4k3/8/8/R6R/8/8/8/R3K2R w KQ - 0 1",
	"q2q3k/8/8/q2q4/8/8/8/6K1 b - - 0 1",
	"4k3/8/8/8/2B1B3/8/2B1B3/4K3 w - - 0 1",
	"1n2k1n1/8/2n5/8/8/8/8/4K3 b - - 0 1",
	"4k3/2P1P3/8/8/8/8/2p1p3/1N3N1K b - - 0 1",
	"3r1r2/4P3/8/8/8/8/8/K6k w - - 0 1",
}

func c17(tier string, args []string) int {
	run := vl.NewRun("C17", tier)
	run.Rule("encoding: every (from,to,type,promotion) field combination x boundary values and 1/256 of the fields x all 65536 values (thorough: the complete 2^32 product); notation: every (state, legal move) of the families/trees x UCI and SAN spellings (capture mark, =, +/#/!/?! decorations), under-disambiguated and illegal-move strings, all 3x4096 coordinate strings on tree nodes")
	refSelfTest(run)
	run.SetDeadline(budget(tier))
	c17Encoding(run, tier == "thorough")
	depth, seeds := 2, quickSeeds()
	fams := []family{famP3(space.P3Opt{Quadrant: true}, "P3(extra piece in a1-d4)"), famPPromoAD(), famPEP([]int8{}, true, "PEP(kings+pawns, second capturer)")}
	if tier == "thorough" {
		depth, seeds = 3, space.AllSeeds()
		fams = []family{famP3(space.P3Opt{}, "P3"), famPPromo(), famPEP([]int8{space.R}, true, "PEP(extra=rook, second capturer)"), famPCastle(0), famPBlock()}
	}
	runFamilies(run, fams, nil, c17State)
	runTree(run, append(append([]string{}, seeds...), disambFens...), depth, nil, c17State)
	runTree(run, append(append([]string{}, seeds...), disambFens...), 1, nil, c17NonMoves)
	return run.Finish()
}
