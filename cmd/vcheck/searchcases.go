package main

import (
	"fmt"
	"strings"

	"github.com/frankkopp/FrankyGo/internal/position"

	"github.com/frankkopp/FrankyGo/verif/eng"
	"github.com/frankkopp/FrankyGo/verif/refchess"
)

// A search case is a FEN optionally followed by " moves m1 m2 ..." - a game history played from the FEN, so that
// earlier occurrences of positions (repetition) and the half-move clock take part in the searched tree.

// caseSplit returns the start FEN and the history moves of a case.
func caseSplit(c string) (string, []string) {
	if i := strings.Index(c, " moves "); i >= 0 {
		return c[:i], strings.Fields(c[i+7:])
	}
	return c, nil
}

// caseRef: the reference position at the end of the history (clocks included), the number of earlier
// occurrences of that position in the history, and an error for an unplayable case.
func caseRef(c string) (*refchess.Pos, int, error) {
	fen, moves := caseSplit(c)
	r, err := refchess.ParseFEN(fen)
	if err != nil {
		return nil, 0, err
	}
	if !r.Valid() {
		return nil, 0, fmt.Errorf("invalid position %q", fen)
	}
	ids := []string{r.Identity()}
	for _, u := range moves {
		m, ok := r.FindUci(u)
		if !ok {
			return nil, 0, fmt.Errorf("history move %s is not legal in %s", u, r.FEN())
		}
		r = r.Make(m)
		ids = append(ids, r.Identity())
	}
	occ := 0
	for _, id := range ids[:len(ids)-1] {
		if id == ids[len(ids)-1] {
			occ++
		}
	}
	return r, occ, nil
}

func mustCaseRef(c string) *refchess.Pos {
	r, _, err := caseRef(c)
	if err != nil {
		panic(err)
	}
	return r
}

// casePos builds the engine position of a case: set up from the FEN, history played with DoMove.
func casePos(c string) *position.Position {
	fen, moves := caseSplit(c)
	p, err := position.NewPositionFen(fen)
	if err != nil {
		panic("case FEN rejected by the engine: " + c)
	}
	r := refchess.MustFEN(fen)
	for _, u := range moves {
		m, ok := r.FindUci(u)
		if !ok {
			panic("unplayable case " + c)
		}
		p.DoMove(eng.EngMove(m))
		r = r.Make(m)
	}
	return p
}

// caseRootIsDrawn: the root itself is a draw by the engine's conventions (third occurrence or clock >= 100).
func caseRootIsDrawn(c string) bool {
	r, occ, err := caseRef(c)
	return err == nil && (occ >= 2 || r.Half >= 100)
}

// withClock rewrites the half-move clock of a FEN (ep square dropped positions only make sense with clock 0,
// so FENs with an ep square are returned unchanged).
func withClock(fen string, clock int) string {
	f := strings.Fields(fen)
	if len(f) < 6 || f[3] != "-" {
		return fen
	}
	f[4] = fmt.Sprint(clock)
	f[5] = fmt.Sprint(60 + clock/2)
	return strings.Join(f, " ")
}

// shuffleHistories: for a position without castling rights and ep square, the histories S0 m1 S1 m2 S2 m1' S3 m2' S0 ...
// built from the first (up to two) pairs of reversible quiet officer/king moves m1 (mover) and m2 (opponent), cut after
// 5, 6 and 7 plies: the root then has occurred once before and positions one to three plies below it twice.
func shuffleHistories(fen string, pairs int) []string {
	r, err := refchess.ParseFEN(fen)
	if err != nil || !r.Valid() || r.EP >= 0 || r.Cast != [4]bool{} {
		return nil
	}
	var res []string
	rev := func(p *refchess.Pos, m refchess.Move) (refchess.Move, bool) {
		return p.FindUci(refchess.SqName(m.To) + refchess.SqName(m.From))
	}
	quiet := func(p *refchess.Pos, m refchess.Move) bool {
		pc := p.B[m.From]
		if pc < 0 {
			pc = -pc
		}
		return m.Kind == refchess.Normal && p.B[m.To] == 0 && pc != refchess.Pawn
	}
	found := 0
	for _, m1 := range r.LegalMoves() {
		if !quiet(r, m1) {
			continue
		}
		s1 := r.Make(m1)
		for _, m2 := range s1.LegalMoves() {
			if !quiet(s1, m2) {
				continue
			}
			s2 := s1.Make(m2)
			m1r, ok := rev(s2, m1)
			if !ok || !quiet(s2, m1r) {
				continue
			}
			s3 := s2.Make(m1r)
			m2r, ok := rev(s3, m2)
			if !ok || !quiet(s3, m2r) {
				continue
			}
			if s3.Make(m2r).Identity() != r.Identity() {
				continue
			}
			cyc := []string{m1.String(), m2.String(), m1r.String(), m2r.String()}
			for _, n := range []int{5, 6, 7} {
				var h []string
				for i := 0; i < n; i++ {
					h = append(h, cyc[i%4])
				}
				res = append(res, fen+" moves "+strings.Join(h, " "))
			}
			found++
			break
		}
		if found >= pairs {
			break
		}
	}
	return res
}

// drawCases: positions in which the draw rules take part in a shallow tree - clocks 96..99 (and drawn roots with
// clock 100 when drawnRoots) and shuffle histories - derived from every step-th small position and the tactical list.
func drawCases(base []string, step int, drawnRoots bool) []string {
	var res []string
	clocks := []int{97, 98, 99}
	if drawnRoots {
		clocks = append(clocks, 100, 101)
	}
	for i, f := range base {
		if i%step != 0 {
			continue
		}
		for _, c := range clocks {
			if g := withClock(f, c); g != f {
				res = append(res, g)
			}
		}
		hs := shuffleHistories(f, 1)
		res = append(res, hs...)
		if drawnRoots && len(hs) > 0 {
			// the root is the third occurrence: eight plies of the cycle
			_, ms := caseSplit(hs[0])
			cyc := append(append([]string{}, ms[:4]...), ms[:4]...)
			res = append(res, f+" moves "+strings.Join(cyc, " "))
		}
	}
	return res
}

// caseAppend: the case continued by one more move
func caseAppend(c string, uci string) string {
	if strings.Contains(c, " moves ") {
		return c + " " + strings.ToLower(uci)
	}
	return c + " moves " + strings.ToLower(uci)
}
