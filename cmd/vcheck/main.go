// vcheck runs one property check: vcheck <ID> <quick|thorough> [args]
package main

import (
	"fmt"
	"os"
	"runtime/debug"
	"sort"

	"github.com/frankkopp/FrankyGo/verif/eng"
)

type checkFn func(tier string, args []string) int

var registry = map[string]checkFn{}

func main() {
	if len(os.Args) < 3 {
		ids := []string{}
		for k := range registry {
			ids = append(ids, k)
		}
		sort.Strings(ids)
		fmt.Fprintln(os.Stderr, "usage: vcheck <ID> <quick|thorough> ; ids:", ids)
		os.Exit(2)
	}
	eng.Quiet()
	debug.SetGCPercent(400)
	fn, ok := registry[os.Args[1]]
	if !ok {
		fmt.Fprintln(os.Stderr, "unknown check", os.Args[1])
		os.Exit(2)
	}
	os.Exit(fn(os.Args[2], os.Args[3:]))
}
