package main

import (
	"fmt"
	"io/ioutil"
	"os"
	"path/filepath"
	"sort"
	"strings"

	"github.com/frankkopp/FrankyGo/internal/openingbook"
	"github.com/frankkopp/FrankyGo/internal/position"
	. "github.com/frankkopp/FrankyGo/internal/types"

	"github.com/frankkopp/FrankyGo/verif/eng"
	"github.com/frankkopp/FrankyGo/verif/refchess"
	"github.com/frankkopp/FrankyGo/verif/sched"
	"github.com/frankkopp/FrankyGo/verif/vl"
)

func init() { registry["C19"] = c19; registry["C20"] = c20 }

const startFen = "rnbqkbnr/pppppppp/8/8/8/8/PPPPPPPP/RNBQKBNR w KQkq - 0 1"

// a game is a list of coordinate moves; illegal entries end its legal prefix
type bookGame []string

// bookRef: the reference book: identity -> visit count, plus engine key -> reference position
type bookRef struct {
	count map[string]int
	pos   map[uint64]*refchess.Pos
	key   map[string]uint64
}

// buildRef replays the games with refchess (legality) and an engine position (keys).
func buildRef(games []bookGame) *bookRef {
	ref := &bookRef{count: map[string]int{}, pos: map[uint64]*refchess.Pos{}, key: map[string]uint64{}}
	root := refchess.MustFEN(startFen)
	rp := position.NewPosition()
	ref.pos[uint64(rp.ZobristKey())] = root
	ref.key[root.Identity()] = uint64(rp.ZobristKey())
	ref.count[root.Identity()] = 0
	for _, g := range games {
		if len(g) == 0 {
			continue
		}
		ref.count[root.Identity()]++
		r := root
		p := position.NewPosition()
		for _, u := range g {
			m, ok := r.FindUci(u)
			if !ok {
				break
			}
			r = r.Make(m)
			p.DoMove(eng.EngMove(m))
			ref.count[r.Identity()]++
			ref.pos[uint64(p.ZobristKey())] = r
			ref.key[r.Identity()] = uint64(p.ZobristKey())
		}
	}
	return ref
}

// render a collection in the three formats
func renderSimple(games []bookGame) string {
	var sb strings.Builder
	for _, g := range games {
		sb.WriteString(strings.Join(g, " "))
		sb.WriteString("\n")
	}
	return sb.String()
}

// sanOf converts a game to SAN tokens. The first illegal move ends the legal prefix: it is written as an unreadable
// token, and the moves after it are written as they would read in the position where the line stalled (SAN if legal
// there, else verbatim) - a reader that does not stop at the illegal move would go on playing them.
func sanOf(g bookGame) []string {
	r := refchess.MustFEN(startFen)
	var toks []string
	stalled := false
	for _, u := range g {
		m, ok := r.FindUci(u)
		switch {
		case stalled && ok:
			toks = append(toks, r.SAN(m))
			r = r.Make(m)
		case stalled:
			toks = append(toks, u)
		case !ok:
			toks = append(toks, "Qh9")
			stalled = true
		default:
			toks = append(toks, r.SAN(m))
			r = r.Make(m)
		}
	}
	return toks
}

func numbered(toks []string) string {
	var sb strings.Builder
	for i, t := range toks {
		if i%2 == 0 {
			fmt.Fprintf(&sb, "%d. ", i/2+1)
		}
		sb.WriteString(t)
		sb.WriteString(" ")
	}
	return strings.TrimSpace(sb.String())
}

func renderSan(games []bookGame) string {
	var sb strings.Builder
	for _, g := range games {
		if len(g) == 0 {
			sb.WriteString("\n")
			continue
		}
		sb.WriteString(numbered(sanOf(g)))
		sb.WriteString(" 1/2-1/2\n")
	}
	return sb.String()
}

func renderPgn(games []bookGame) string {
	var sb strings.Builder
	for gi, g := range games {
		if len(g) == 0 {
			continue
		}
		fmt.Fprintf(&sb, "[Event \"verif %d\"]\n[Site \"?\"]\n[White \"A, B\"]\n[Black \"C (D)\"]\n[Result \"1-0\"]\n\n%% escape line e2e4 (ignored)\n", gi)
		toks := sanOf(g)
		var mv strings.Builder
		for i, t := range toks {
			if i%2 == 0 {
				fmt.Fprintf(&mv, "%d. ", i/2+1)
			}
			mv.WriteString(t)
			if t != "Qh9" && !strings.ContainsAny(t, "+#") {
				mv.WriteString([]string{"", "!", "?!", ""}[(gi+2*i)%4]) // suffix annotations
			}
			switch (gi + i) % 4 {
			case 0:
				// (comments may contain parentheses: an opening one here, the closing one in the next such comment)
				mv.WriteString([]string{" {a comment with e4 (and Nf3 inside\ncontinued on a second line with d4}", " {see above) and a4 :)}"}[(i/4)%2])
			case 1:
				mv.WriteString(" $1")
			case 2:
				mv.WriteString(" (1... a6 {option a) is natural} 2. a3 (2. h3 h6) 2... b6)")
			}
			if i == 1 {
				mv.WriteString(" ; rest of line comment e2e4\n")
			} else {
				mv.WriteString(" ")
			}
		}
		sb.WriteString(strings.TrimSpace(mv.String()))
		sb.WriteString("\n1-0\n\n")
	}
	return sb.String()
}

var bookDirCounter int

func writeBookFile(content string) (dir, file string) {
	bookDirCounter++
	dir = filepath.Join(vl.Root(), ".work", fmt.Sprintf("book-%d-%d", os.Getpid(), bookDirCounter))
	os.MkdirAll(dir, 0755)
	file = "book.txt"
	ioutil.WriteFile(filepath.Join(dir, file), []byte(content), 0644)
	return
}

// bookContent reads the whole book through its public API by walking from the root.
type bookContent struct {
	counts map[uint64]int
	moves  map[uint64][]openingbook.Successor
}

func readBook(b *openingbook.Book, ref *bookRef) (*bookContent, string) {
	c := &bookContent{counts: map[uint64]int{}, moves: map[uint64][]openingbook.Successor{}}
	// every reference position must be present; no others (NumberOfEntries)
	for k := range ref.pos {
		e, ok := b.GetEntry(position.Key(k))
		if !ok {
			return c, fmt.Sprintf("book position missing: %s", ref.pos[k].Identity())
		}
		c.counts[k] = e.Counter
		c.moves[k] = e.Moves
	}
	if b.NumberOfEntries() != len(ref.pos) {
		return c, fmt.Sprintf("book has %d positions, the games contain %d", b.NumberOfEntries(), len(ref.pos))
	}
	return c, ""
}

// checkBook compares a built book with the reference; returns a violation class and text or "".
func checkBook(b *openingbook.Book, ref *bookRef) (string, string) {
	c, msg := readBook(b, ref)
	if msg != "" {
		return "book-positions", msg
	}
	for k, r := range ref.pos {
		if c.counts[k] != ref.count[r.Identity()] {
			return "book-visit-count", fmt.Sprintf("position %s visited %d times in the games, book counter %d", r.Identity(), ref.count[r.Identity()], c.counts[k])
		}
		seen := map[uint32]bool{}
		for _, s := range c.moves[k] {
			mv := Move(s.Move)
			if seen[s.Move] {
				return "book-move-twice", fmt.Sprintf("move %s offered twice in %s", mv.StringUci(), r.Identity())
			}
			seen[s.Move] = true
			m, ok := r.FindUci(mv.StringUci())
			if !ok || eng.TupleOfRef(m) != eng.TupleOfEng(mv) {
				return "book-move-illegal", fmt.Sprintf("book move %s is not legal in %s", mv.StringUci(), r.Identity())
			}
			next := r.Make(m)
			if ref.key[next.Identity()] != s.NextEntry {
				return "book-move-link", fmt.Sprintf("book move %s in %s links to a different position", mv.StringUci(), r.Identity())
			}
		}
	}
	return "", ""
}

// openings alphabet: first moves and replies (includes transpositions e4/Nf3 orders)
var whiteOpen = []string{"e2e4", "d2d4", "g1f3", "c2c4", "e2e3", "b1c3"}
var blackOpen = []string{"e7e5", "d7d5", "g8f6", "c7c5", "e7e6", "b8c6"}

func allGames(maxLen int) []bookGame {
	var res []bookGame
	var gen func(cur bookGame)
	gen = func(cur bookGame) {
		if len(cur) > 0 {
			res = append(res, append(bookGame{}, cur...))
		}
		if len(cur) == maxLen {
			return
		}
		al := whiteOpen
		if len(cur)%2 == 1 {
			al = blackOpen
		}
		for _, m := range al {
			gen(append(cur, m))
		}
	}
	gen(nil)
	return res
}

var specialGames = []bookGame{
	{"e2e4", "d7d5", "e4d5", "c7c6", "d5c6", "a7a6", "c6b7", "a6a5", "b7a8q", "a5a4"}, // promotion (capture) inside the line
	{"e2e4", "e7e5", "g1f3", "b8c6", "f1c4", "f8c5", "e1g1", "g8f6"},                  // castling
	{"e2e4", "e7e5", "e4e5", "d7d5"},                                                  // illegal move mid-line
	{"g1f3", "g8f6", "f3g1", "f6g8", "g1f3"},                                          // repetition inside a game
	{"d2d4", "d7d5", "c2c4", "d5c4", "e2e4", "b7b5", "a2a4", "c7c6", "a4b5", "c6b5"},
	{"e2e4", "c7c5", "g1f3", "d7d6", "d2d4", "c5d4", "f3d4", "g8f6", "b1c3", "a7a6"},
}

// curatedGames: lines from the start position chosen for their notation: a pinned candidate that needs no
// disambiguation (Winawer 4.Ne2), file disambiguation (Nbd2, Nbd7, Nca3), rank disambiguation (N1c3), en passant, checks,
// promotion with capture and under-promotion, both castlings, mates (nothing is legal after them), and illegal or
// unreadable moves mid-line whose successors are legal in the position where the line stalled.
var curatedGames = []bookGame{
	{"e2e4", "e7e6", "d2d4", "d7d5", "b1c3", "f8b4", "g1e2", "d5e4", "a2a3", "b4c3", "e2c3"},
	{"d2d4", "d7d5", "g1f3", "g8f6", "b1d2", "b8d7", "e2e3", "e7e6", "f1d3", "f8d6", "e1g1", "e8g8"},
	{"b1c3", "a7a6", "c3b5", "h7h6", "g1f3", "h6h5", "f3e5", "h5h4", "e5c4", "h4h3", "c4a3", "h3g2", "a3b1", "g2h1q", "b1c3", "h1h2", "b5c7", "d8c7"},
	{"e2e4", "a7a6", "e4e5", "d7d5", "e5d6", "c7d6", "f1b5", "a6b5"},
	{"e2e4", "d7d5", "e4d5", "c7c6", "d5c6", "a7a6", "c6b7", "a6a5", "b7a8n"},
	{"f2f3", "e7e5", "g2g4", "d8h4"},
	{"e2e4", "e7e5", "f1c4", "b8c6", "d1h5", "g8f6", "h5f7"},
	{"d2d4", "d7d5", "b1c3", "b8c6", "c1f4", "c8f5", "d1d2", "d8d7", "e1c1", "e8c8"},
}

// illegal or unreadable move mid-line, followed by moves that are legal where the line stalled
var brokenGames = []bookGame{
	{"e2e4", "e7e5", "g1f4", "f1c4", "g8f6"},
	{"e2e4", "e7e5", "xyz", "g1f3", "b8c6"},
	{"f2f3", "e7e5", "g2g4", "d8h4", "e2e4", "e5e4"}, // moves after the mate
	{"d2d4", "d7d5", "c1g5", "e2e4", "d5e4", "b1c3"},
}

// curatedSelfTest: the curated lines are legal to the end (a typo would silently shorten what is compared).
func curatedSelfTest() string {
	for _, g := range curatedGames {
		if i := playable(refchess.MustFEN(startFen), g); i >= 0 {
			return fmt.Sprintf("curated line %v: move %d (%s) is not legal", g, i+1, g[i])
		}
	}
	return ""
}

func buildBook(content string, format openingbook.BookFormat, useCache bool) (*openingbook.Book, string, error) {
	dir, file := writeBookFile(content)
	b := openingbook.NewBook()
	err := b.Initialize(dir, file, format, useCache, false)
	return b, dir, err
}

func c19(tier string, args []string) int {
	run := vl.NewRun("C19", tier)
	if !sched.IsInstrumented("openingbook") {
		fmt.Fprintln(os.Stderr, "C19 needs the instrumented build")
		return 2
	}
	run.Rule("schedules: small game collections (2 lines x 3 moves: all interleavings of the per-line goroutines; 3 and 4 lines: deviation-bounded) built by the instrumented openingbook.go, every schedule's book compared with the sequential reference (positions, visit counts, offered moves legal / linked / unique), races on the book map; formats: every collection of up to 2 (3) games from all move sequences up to length 3 over a 6-move-per-side alphabet plus special lines (promotion, castling, illegal move, repetition), rendered as Simple, SAN and PGN (tags, comments, NAGs, nested variations, results): the three books equal the reference")
	refSelfTest(run)
	if msg := curatedSelfTest(); msg != "" {
		fmt.Fprintln(os.Stderr, msg)
		return 2
	}
	shard, n, worker := vl.WorkerShard()
	if !worker {
		return run.RunWorkers(16)
	}
	silenceStdout()
	run.SetDeadline(budget(tier))
	defer func() {
		dirs, _ := filepath.Glob(filepath.Join(vl.Root(), ".work", fmt.Sprintf("book-%d-*", os.Getpid())))
		for _, d := range dirs {
			os.RemoveAll(d)
		}
	}()
	// ---- schedules ----
	type sc struct {
		games []bookGame
		bound int
	}
	scenarios := []sc{
		{[]bookGame{{"e2e4", "e7e5", "g1f3"}, {"g1f3", "e7e5", "e2e4"}}, 99}, // transposition into the same position
		{[]bookGame{{"e2e4", "e7e5", "g1f3"}, {"e2e4", "e7e5", "g1f3"}}, 99}, // duplicate line
		{[]bookGame{{"e2e4", "e7e5", "g1f3"}, {"e2e4", "e7e6", "d2d4"}}, 99}, // shared prefix
		{[]bookGame{{"e2e4", "e7e5", "e4e5"}, {"d2d4", "d7d5", "c2c4"}}, 99}, // illegal move mid-line
		{[]bookGame{{"e2e4", "e7e5"}, {"e2e4", "c7c5"}, {"d2d4", "d7d5"}}, 3},
		{[]bookGame{{"e2e4"}, {"e2e4"}, {"e2e4"}}, 3}, // three concurrent visits of one entry
		{[]bookGame{{"e2e4", "e7e5"}, {"g1f3", "g8f6"}, {"e2e4", "e7e5"}, {"d2d4"}}, 2},
	}
	if tier != "thorough" {
		// quick tier: deviation bound 3 for the two-line collections (the thorough tier enumerates all their interleavings)
		for i := 0; i < 4; i++ {
			scenarios[i].bound = 3
		}
		scenarios[4].bound, scenarios[5].bound, scenarios[6].bound = 2, 2, 1
	}
	for si, s := range scenarios {
		for _, format := range []openingbook.BookFormat{openingbook.Simple, openingbook.San, openingbook.Pgn} {
			if (si*3+int(format))%n != shard {
				continue
			}
			ref := buildRef(s.games)
			content := renderSimple(s.games)
			fname := "Simple"
			if format == openingbook.San {
				content, fname = renderSan(s.games), "San"
			}
			if format == openingbook.Pgn {
				content, fname = renderPgn(s.games), "Pgn"
			}
			dir, file := writeBookFile(content)
			var book *openingbook.Book
			outcomes := map[string]bool{}
			body := func() {
				book = openingbook.NewBook()
				if err := book.Initialize(dir, file, format, false, false); err != nil {
					panic("Initialize: " + err.Error())
				}
			}
			ex := &sched.Explorer{Bound: s.bound, Body: body, MaxExec: 400000, Deadline: run.DeadlineTime()}
			ex.Check = func(x *sched.Exec) {
				run.AddTransitions(int64(x.Steps))
				rep := map[string]interface{}{"kind": "schedule", "format": fname, "games": s.games, "choices": x.Choices}
				if x.Verdict != "" {
					run.Violate("book-build:"+x.Verdict, x.Detail, rep)
					return
				}
				for name, r := range x.Races {
					run.Violate("race:"+name, fmt.Sprintf("data race (%s) on %s between %s and %s", r.Kind, name, r.First, r.Other), rep)
				}
				if cls, what := checkBook(book, ref); cls != "" {
					run.Violate(cls+":schedule-dependent", what, rep)
				}
				// outcome = order of move lists (schedule dependent by design), recorded to show that schedules differ
				var o []string
				for k, r := range ref.pos {
					e, _ := book.GetEntry(position.Key(k))
					var ms []string
					for _, s := range e.Moves {
						ms = append(ms, Move(s.Move).StringUci())
					}
					o = append(o, r.Identity()+":"+strings.Join(ms, ","))
				}
				sort.Strings(o)
				outcomes[strings.Join(o, "|")] = true
			}
			ex.Explore()
			run.AddEvals(int64(ex.Executions))
			run.AddStates(1)
			if ex.Capped {
				run.Cap("schedule exploration capped")
			}
			run.SampleCat("schedules", map[string]interface{}{"games": s.games, "format": fname, "bound": s.bound, "schedules": ex.Executions, "distinct_move_list_outcomes": len(outcomes)})
		}
	}
	// ---- formats ----
	single := allGames(3)
	var collections [][]bookGame
	for _, g := range single {
		collections = append(collections, []bookGame{g})
	}
	step := 7
	if tier == "thorough" {
		step = 1
	}
	for i := 0; i < len(single); i += step {
		for j := 0; j < len(single); j += step {
			collections = append(collections, []bookGame{single[i], single[j]})
		}
	}
	for _, g := range specialGames {
		collections = append(collections, []bookGame{g}, []bookGame{g, single[5]}, []bookGame{single[40], g, g})
	}
	collections = append(collections, specialGames)
	for _, g := range append(append([]bookGame{}, curatedGames...), brokenGames...) {
		collections = append(collections, []bookGame{g}, []bookGame{single[7], g})
	}
	collections = append(collections, curatedGames, brokenGames)
	for ci, col := range collections {
		if ci%n != shard || run.Expired() {
			continue
		}
		ref := buildRef(col)
		for _, f := range []struct {
			name    string
			format  openingbook.BookFormat
			content string
		}{{"Simple", openingbook.Simple, renderSimple(col)}, {"San", openingbook.San, renderSan(col)}, {"Pgn", openingbook.Pgn, renderPgn(col)}} {
			var book *openingbook.Book
			var dir string
			x := sched.Run(nil, func() {
				var err error
				book, dir, err = buildBook(f.content, f.format, false)
				if err != nil {
					panic("Initialize: " + err.Error())
				}
			}, sched.Options{})
			os.RemoveAll(dir)
			run.AddStates(1)
			rep := map[string]interface{}{"kind": "book", "format": f.name, "games": col, "file_content": f.content}
			if x.Verdict != "" {
				run.Violate("book-build:"+x.Verdict, x.Detail, rep)
				continue
			}
			if cls, what := checkBook(book, ref); cls != "" {
				special := ""
				for _, g := range col {
					for _, u := range g {
						if len(u) == 5 {
							special = ":promotion-in-line"
						}
					}
				}
				run.Violate(cls+":format-"+f.name+special, what, rep)
			}
		}
	}
	run.Set("format_collections", len(collections))
	return run.FinishWorker()
}

// ---- C20: cache round trip and damaged caches ----

func c20(tier string, args []string) int {
	run := vl.NewRun("C20", tier)
	if !sched.IsInstrumented("openingbook") {
		fmt.Fprintln(os.Stderr, "C20 needs the instrumented build")
		return 2
	}
	run.Level = "fault_enumeration"
	run.Rule("books of 0, 1, 3 (and ~30) games: build with cache, then for every prefix length k of the written cache file (every crash point of the non-atomic save), no cache file, and every single-byte damage that makes the file undecodable: Initialize on a fresh Book and on a second fresh Book in the same execution, under the scheduler (a hang is a deterministic deadlock verdict); content must equal the source-built book; the intact cache must load to the same book")
	shard, n, worker := vl.WorkerShard()
	if !worker {
		return run.RunWorkers(16)
	}
	silenceStdout()
	run.SetDeadline(budget(tier))
	books := [][]bookGame{{}, {specialGames[1]}, {specialGames[1], specialGames[3], {"d2d4", "d7d5", "c2c4"}}}
	if tier == "thorough" {
		books = append(books, allGames(2)[:30])
	}
	var cases, distinct int64
	// another book with its own intact cache, for the two-books-in-one-process case
	otherGames := []bookGame{{"d2d4", "g8f6", "c2c4"}, {"c2c4", "e7e5"}}
	otherRef := buildRef(otherGames)
	otherDir, otherFile := writeBookFile(renderSimple(otherGames))
	defer os.RemoveAll(otherDir)
	if x := sched.Run(nil, func() {
		if err := openingbook.NewBook().Initialize(otherDir, otherFile, openingbook.Simple, true, false); err != nil {
			panic(err.Error())
		}
	}, sched.Options{}); x.Verdict != "" {
		run.Violate("cache-build:"+x.Verdict, x.Detail, map[string]interface{}{"kind": "cache", "games": otherGames})
		return run.FinishWorker()
	}
	for bi, games := range books {
		ref := buildRef(games)
		content := renderSimple(games)
		if len(games) == 0 {
			content = "\n"
		}
		dir, file := writeBookFile(content)
		defer os.RemoveAll(dir)
		cachePath := filepath.Join(dir, file+".cache")
		var first *openingbook.Book
		x := sched.Run(nil, func() {
			first = openingbook.NewBook()
			if err := first.Initialize(dir, file, openingbook.Simple, true, false); err != nil {
				panic(err.Error())
			}
		}, sched.Options{})
		rep := map[string]interface{}{"kind": "cache", "games": games}
		if x.Verdict != "" {
			run.Violate("cache-build:"+x.Verdict, x.Detail, rep)
			continue
		}
		if cls, what := checkBook(first, ref); cls != "" {
			run.Violate("cache-build:"+cls, what, rep)
			continue
		}
		good, err := ioutil.ReadFile(cachePath)
		if err != nil {
			run.Violate("cache-not-written", "no cache file after Initialize with useCache: "+err.Error(), rep)
			continue
		}
		run.Count("cache_file_bytes", int64(len(good)))
		// one damaged-cache case
		var runCase func(name string, intact bool)
		try := func(name string, data []byte, remove bool, intact bool) {
			if remove {
				os.Remove(cachePath)
			} else {
				ioutil.WriteFile(cachePath, data, 0644)
			}
			runCase(name, intact)
		}
		tryAsIs := func(name string) { runCase(name, false) }
		runCase = func(name string, intact bool) {
			cases++
			var b1, b2, b3, b4, b5 *openingbook.Book
			var e1, e2, e3, e4, e5 error
			x := sched.Run(nil, func() {
				b1 = openingbook.NewBook()
				e1 = b1.Initialize(dir, file, openingbook.Simple, true, false)
				sched.Record("first", "done")
				b2 = openingbook.NewBook()
				e2 = b2.Initialize(dir, file, openingbook.Simple, true, false)
				// repeated initialisations in one process: the first object again after Reset(), another book (its own
				// intact cache) on a reset object, and this book once more on a reset object
				b3 = b1
				b3.Reset()
				e3 = b3.Initialize(dir, file, openingbook.Simple, true, false)
				b4 = openingbook.NewBook()
				b4.Reset()
				e4 = b4.Initialize(otherDir, otherFile, openingbook.Simple, true, false)
				b5 = openingbook.NewBook()
				b5.Reset()
				e5 = b5.Initialize(dir, file, openingbook.Simple, true, false)
			}, sched.Options{})
			r := map[string]interface{}{"kind": "cache", "games": games, "damage": name, "cache_bytes": len(good)}
			switch x.Verdict {
			case "deadlock", "horizon":
				cls := "damaged-cache:hang"
				if len(x.Events) > 0 {
					cls = "damaged-cache:second-initialisation-hangs"
				}
				run.Violate(cls, "Initialize does not terminate: "+x.Detail, r)
				return
			case "panic":
				run.Violate("damaged-cache:panic", x.Detail, r)
				return
			case "divergence":
				fmt.Fprintln(os.Stderr, "infrastructure error:", x.Detail)
				os.Exit(2)
			}
			if e1 != nil || e2 != nil || e3 != nil || e4 != nil || e5 != nil {
				run.Violate("damaged-cache:error", fmt.Sprintf("Initialize returned an error: %v / %v / %v / %v / %v", e1, e2, e3, e4, e5), r)
				return
			}
			// (b1 and b3 are the same object: it is judged after its re-initialisation)
			for i, b := range []*openingbook.Book{b2, b3, b4, b5} {
				want, names := ref, []string{"second fresh Book", "first Book after Reset and re-initialisation", "another book on a reset Book in the same process", "this book on a reset Book after the other one"}
				if i == 2 {
					want = otherRef
				}
				if cls, what := checkBook(b, want); cls != "" {
					k := "damaged-cache:wrong-book:" + cls
					if intact {
						k = "cache-roundtrip:" + cls
					}
					if i >= 1 {
						k += ":repeated-initialisation"
					}
					run.Violate(k, fmt.Sprintf("%s: %s", names[i], what), r)
					return
				}
			}
		}
		job := 0
		mine := func() bool { job++; return (job+bi)%n == shard }
		if mine() {
			try("intact cache", good, false, true)
		}
		if mine() {
			try("no cache file", nil, true, false)
		}
		// a cache path that can neither be decoded nor written again: a directory, a link into a folder that does not exist
		if mine() {
			os.Remove(cachePath)
			os.Mkdir(cachePath, 0755)
			tryAsIs("a directory at the cache path")
			os.Remove(cachePath)
		}
		if mine() {
			os.Remove(cachePath)
			if os.Symlink(filepath.Join(dir, "no-such-folder", "x.cache"), cachePath) == nil {
				tryAsIs("a dangling link at the cache path")
			}
			os.Remove(cachePath)
		}
		for k := 0; k < len(good); k++ {
			if mine() && !run.Expired() {
				try(fmt.Sprintf("truncated to %d of %d bytes", k, len(good)), good[:k], false, false)
				distinct++
			}
		}
		step := 1
		if tier != "thorough" {
			step = 3
		}
		for off := 0; off < len(good); off += step {
			for _, mode := range []string{"xorFF", "zero"} {
				if !mine() || run.Expired() {
					continue
				}
				d := append([]byte{}, good...)
				if mode == "xorFF" {
					d[off] ^= 0xFF
				} else {
					if d[off] == 0 {
						continue
					}
					d[off] = 0
				}
				if gobDecodable(d) {
					continue // the damage yields another decodable file: outside the statement
				}
				try(fmt.Sprintf("byte %d %s", off, mode), d, false, false)
				distinct++
			}
		}
		run.SampleCat("book", map[string]interface{}{"games": len(games), "cache_bytes": len(good)})
	}
	run.AddEvals(cases)
	run.AddNontrivial(distinct)
	run.AddStates(cases)
	run.AddTransitions(cases)
	return run.FinishWorker()
}
