package main

import (
	"fmt"
	"os"
	"strconv"
	"strings"
	"time"

	"github.com/frankkopp/FrankyGo/verif/refchess"
	"github.com/frankkopp/FrankyGo/verif/vl"
)

// budget is the internal time cap of a run (an expired cap is reported as exhaustive:false, never as a verdict).
func budget(tier string) time.Duration {
	if s := os.Getenv("VERIF_BUDGET_S"); s != "" {
		if n, err := strconv.Atoi(s); err == nil {
			return time.Duration(n) * time.Second
		}
	}
	if tier == "thorough" {
		return 100 * time.Minute
	}
	return 8 * time.Minute
}

var refPerft = []struct {
	fen   string
	nodes []uint64
}{
	{"rnbqkbnr/pppppppp/8/8/8/8/PPPPPPPP/RNBQKBNR w KQkq - 0 1", []uint64{20, 400, 8902}},
	{"r3k2r/p1ppqpb1/bn2pnp1/3PN3/1p2P3/2N2Q1p/PPPBBPPP/R3K2R w KQkq - 0 1", []uint64{48, 2039, 97862}},
	{"8/2p5/3p4/KP5r/1R3p1k/8/4P1P1/8 w - - 0 1", []uint64{14, 191, 2812, 43238}},
	{"r3k2r/Pppp1ppp/1b3nbN/nP6/BBP1P3/q4N2/Pp1P2PP/R2Q1RK1 w kq - 0 1", []uint64{6, 264, 9467}},
	{"rnbq1k1r/pp1Pbppp/2p5/8/2B5/8/PPP1NnPP/RNBQK2R w KQ - 1 8", []uint64{44, 1486, 62379}},
	{"r4rk1/1pp1qppp/p1np1n2/2b1p1B1/2B1P1b1/P1NP1N2/1PP1QPPP/R4RK1 w - - 0 10", []uint64{46, 2079, 89890}},
}

// refSelfTest re-establishes the reference model's trustworthiness from published perft numbers
// (numbers that do not come from the engine under test).
func refSelfTest(run *vl.Run) bool {
	ok := true
	vl.Parallel(len(refPerft), func(i, n int) {
		c := refPerft[i]
		p := refchess.MustFEN(c.fen)
		for d, want := range c.nodes {
			if got := p.Perft(d+1, nil); got != want {
				fmt.Fprintf(os.Stderr, "refchess self-test FAILED: %s depth %d got %d want %d\n", c.fen, d+1, got, want)
				ok = false
			}
		}
	})
	if !ok {
		fmt.Fprintln(os.Stderr, "reference model broken - infrastructure error")
		os.Exit(2)
	}
	run.Set("reference_selftest", "refchess reproduced published perft numbers (6 positions, depth 3-4)")
	return ok
}

// panicKind: a short class for a recovered panic message (index out of range, nil pointer, other)
func panicKind(msg string) string {
	switch {
	case strings.Contains(msg, "index out of range"):
		return "index-out-of-range"
	case strings.Contains(msg, "nil pointer"):
		return "nil-pointer"
	case strings.Contains(msg, "slice bounds"):
		return "slice-bounds"
	}
	return "other"
}
