package main

import (
	"fmt"

	"github.com/frankkopp/FrankyGo/internal/config"
	"github.com/frankkopp/FrankyGo/internal/evaluator"
	"github.com/frankkopp/FrankyGo/internal/movegen"
	"github.com/frankkopp/FrankyGo/internal/position"
	. "github.com/frankkopp/FrankyGo/internal/types"

	"github.com/frankkopp/FrankyGo/verif/refchess"
	"github.com/frankkopp/FrankyGo/verif/space"
	"github.com/frankkopp/FrankyGo/verif/vl"
)

func init() { registry["C15"] = c15 }

type evalCfg struct {
	name      string
	lazy, adv bool
}

var evalCfgs = []evalCfg{{"default", false, false}, {"Eval_Lazy", true, false}, {"Eval_AdvPiece", false, true}, {"Eval_Lazy+Eval_AdvPiece", true, true}}

type c15user struct {
	ev  *evaluator.Evaluator
	cfg string
}

func c15State(w *wctx, p *position.Position, r *refchess.Pos) {
	run := w.run
	u := w.user.(*c15user)
	rep := func(extra map[string]interface{}) map[string]interface{} {
		if extra == nil {
			extra = map[string]interface{}{}
		}
		extra["config"] = u.cfg
		return w.replayOf(r, extra)
	}
	before := takeSnap(p, nil)
	v := u.ev.Evaluate(p)
	run.AddEvals(1)
	if d := snapDiffs(before, takeSnap(p, nil)); len(d) > 0 {
		run.Violate("evaluate-modifies-position:"+d[0], "Evaluate changed an observable of the position: "+d[0], rep(nil))
	}
	if v2 := u.ev.Evaluate(p); v2 != v {
		run.Violate("not-repeatable", fmt.Sprintf("second Evaluate gives %d, first %d", v2, v), rep(nil))
	}
	// fresh position + fresh evaluator
	fp, err := position.NewPositionFen(r.FEN())
	if err == nil {
		fv := evaluator.NewEvaluator().Evaluate(fp)
		run.AddEvals(1)
		if fv != v {
			if w.clampSeen && fp.GamePhase() != p.GamePhase() {
				run.Violate(keyClamp, whatClamp, rep(nil))
			} else {
				run.Violate("history-or-instance-dependent", fmt.Sprintf("value %d on the live position / reused evaluator but %d on a fresh position and evaluator", v, fv), rep(nil))
			}
		}
	}
	// colour mirror
	mr := r.Mirror()
	mp, err := position.NewPositionFen(mr.FEN())
	if err == nil {
		mv := u.ev.Evaluate(mp)
		run.AddEvals(1)
		ref := v
		if fp != nil && w.clampSeen {
			ref = evaluator.NewEvaluator().Evaluate(fp) // compare fresh with fresh when the live phase may have drifted
		}
		if mv != ref {
			cls := "mirror-asymmetric"
			run.Violate(cls, fmt.Sprintf("value %d but colour-mirrored position %d (both from the mover's view)", ref, mv), rep(map[string]interface{}{"mirror_fen": mr.FEN()}))
		}
	}
	// an option change between two evaluations of the same position by the same evaluator: the value is that of a fresh
	// evaluator under the new setting, and the original value again after switching back
	saved := config.Settings.Eval.UseAdvancedPieceEval
	config.Settings.Eval.UseAdvancedPieceEval = !saved
	vAlt, vAltFresh := u.ev.Evaluate(p), evaluator.NewEvaluator().Evaluate(p)
	config.Settings.Eval.UseAdvancedPieceEval = saved
	run.AddEvals(3)
	if vAlt != vAltFresh {
		run.Violate("depends-on-earlier-evaluation:option-change", fmt.Sprintf("after toggling Eval_AdvPiece the reused evaluator gives %d, a fresh one %d", vAlt, vAltFresh), rep(nil))
	}
	if vBack := u.ev.Evaluate(p); vBack != v {
		run.Violate("depends-on-earlier-evaluation:option-change", fmt.Sprintf("after toggling Eval_AdvPiece and back the reused evaluator gives %d, before %d", vBack, v), rep(nil))
	}
	// insufficient material => 0
	if p.HasInsufficientMaterial() {
		run.Count("insufficient_material_states", 1)
		if v != ValueDraw {
			run.Violate("insufficient-nonzero", fmt.Sprintf("insufficient material but value %d", v), rep(nil))
		}
	}
	// do/undo excursion over every legal move, then evaluate again
	noteClamp(w, p)
	for _, m := range append([]Move{}, (*w.mg.GenerateLegalMoves(p, movegen.GenAll))...) {
		p.DoMove(m)
		u.ev.Evaluate(p)
		p.UndoMove()
		run.AddTransitions(1)
	}
	if v3 := u.ev.Evaluate(p); v3 != v {
		if w.clampSeen {
			run.Violate(keyClamp, whatClamp, rep(nil))
		} else {
			run.Violate("changed-by-excursion", fmt.Sprintf("value %d before and %d after a do/undo excursion", v, v3), rep(nil))
		}
	}
}

func setEvalCfg(c evalCfg) {
	config.Settings.Eval.UseLazyEval = c.lazy
	config.Settings.Eval.UseAdvancedPieceEval = c.adv
}

func c15(tier string, args []string) int {
	run := vl.NewRun("C15", tier)
	run.Rule("every state of the families/trees x 4 evaluation configurations (default, Eval_Lazy, Eval_AdvPiece, both): Evaluate vs second call, vs fresh position+fresh evaluator, vs colour mirror, vs after a do/undo excursion over all legal moves; observables unchanged; insufficient material => 0. One configuration per worker process (the evaluator has process-global scratch state)")
	shard, n, worker := vl.WorkerShard()
	if !worker {
		return run.RunWorkers(len(evalCfgs) * 4)
	}
	run.SetDeadline(budget(tier))
	cfg := evalCfgs[shard%len(evalCfgs)]
	sub, nsub := shard/len(evalCfgs), n/len(evalCfgs)
	setEvalCfg(cfg)
	depth, seeds := 2, quickSeeds()
	fams := []family{famP3(space.P3Opt{Quadrant: true}, "P3(extra piece in a1-d4)"), famPPromoAD(), famPBlock()}
	if tier == "thorough" {
		depth, seeds = 3, space.AllSeeds()
		fams = []family{famP3(space.P3Opt{}, "P3"), famPPromo(), famPBlock(), famPCastle(0)}
	}
	// sub-shard: families by shard filter, seeds round-robin
	var mySeeds []string
	for i, s := range seeds {
		if i%nsub == sub {
			mySeeds = append(mySeeds, s)
		}
	}
	for i := range fams {
		f := fams[i]
		enum := f.enum
		fams[i].enum = func(s, n int, e space.Emit) {
			if s%nsub == sub {
				enum(s, n, e)
			}
		}
	}
	nu := func() interface{} { return &c15user{ev: evaluator.NewEvaluator(), cfg: cfg.name} }
	// single goroutine per process: the evaluator's scratch score is a package-level variable
	saved := vl.SetWorkers(1)
	c15Material(run, cfg.name, sub, nsub)
	runFamilies(run, fams, nu, c15State)
	if len(mySeeds) > 0 {
		runTree(run, mySeeds, depth, nu, c15State)
	}
	vl.SetWorkers(saved)
	return run.FinishWorker()
}

// c15Material: the dead-material clause over every material signature of the C10 sweep (<=3 minor pieces by square
// colour and <=1 Q, R, P per side, 4 placements each): wherever the engine classifies the position as insufficient
// material the evaluation is exactly 0 - from both sides' view, on the placement and on its colour mirror.
func c15Material(run *vl.Run, cfgName string, sub, nsub int) {
	mats := allSideMats()
	ev := evaluator.NewEvaluator()
	for wi, w := range mats {
		if wi%nsub != sub {
			continue
		}
		for _, b := range mats {
			for layout := 0; layout < 4; layout++ {
				r := placeMaterial(w, b, layout)
				if !r.Valid() {
					r.White = !r.White // the placement has the side not to move in check: let that side move
				}
				for _, q := range []*refchess.Pos{r, r.Mirror()} {
					p, err := position.NewPositionFen(q.FEN())
					if err != nil || !q.Valid() {
						continue
					}
					run.AddStates(1)
					if !p.HasInsufficientMaterial() {
						continue
					}
					run.Count("insufficient_material_signature_positions", 1)
					if v := ev.Evaluate(p); v != ValueDraw {
						run.Violate("insufficient-nonzero", fmt.Sprintf("insufficient material (%s v %s) but value %d", w.String(), b.String(), v),
							map[string]interface{}{"kind": "material", "fen": q.FEN(), "config": cfgName})
					}
				}
			}
		}
	}
}
