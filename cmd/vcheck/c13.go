package main

import (
	"fmt"
	"os"
	"strings"
	"time"

	"github.com/frankkopp/FrankyGo/internal/config"
	"github.com/frankkopp/FrankyGo/internal/movegen"
	"github.com/frankkopp/FrankyGo/internal/position"
	"github.com/frankkopp/FrankyGo/internal/search"
	. "github.com/frankkopp/FrankyGo/internal/types"

	"github.com/frankkopp/FrankyGo/verif/eng"
	"github.com/frankkopp/FrankyGo/verif/refchess"
	"github.com/frankkopp/FrankyGo/verif/sched"
	"github.com/frankkopp/FrankyGo/verif/vl"
)

func init() { registry["C13"] = c13 }

// schedSearch runs one search to completion under the scheduler's default schedule (deterministic).
func schedSearch(fen string, sl search.Limits, opt sched.Options) (res search.Result, nodes uint64, x *sched.Exec) {
	x = sched.Run(nil, func() {
		s := search.NewSearch()
		s.SetUciHandler(&mockDriver{})
		p, _ := position.NewPositionFen(fen)
		s.StartSearch(*p, sl)
		s.WaitWhileSearching()
		res = s.LastSearchResult()
		nodes = s.NodesVisited()
	}, opt)
	return
}

// phasePositions: one position for every game phase 0..24, both colours to move
func phasePositions() map[int][2]string {
	// officers added one by one: N=1 B=1 R=2 Q=4
	res := map[int][2]string{}
	base := []struct {
		sq string
		pc byte
		v  int
	}{{"b1", 'N', 1}, {"g8", 'n', 1}, {"c1", 'B', 1}, {"f8", 'b', 1}, {"g1", 'N', 1}, {"b8", 'n', 1}, {"f1", 'B', 1}, {"c8", 'b', 1},
		{"a1", 'R', 2}, {"h8", 'r', 2}, {"h1", 'R', 2}, {"a8", 'r', 2}, {"d1", 'Q', 4}, {"d8", 'q', 4}}
	// build every prefix sum reachable: greedy subsets giving each phase value
	for target := 0; target <= 24; target++ {
		r := refchess.MustFEN("4k3/pppppppp/8/8/8/8/PPPPPPPP/4K3 w - - 0 1")
		left := target
		// choose pieces from the most valuable down so that every target is reachable
		order := []int{12, 13, 8, 9, 10, 11, 0, 1, 2, 3, 4, 5, 6, 7}
		for _, i := range order {
			if base[i].v <= left {
				sq := int(base[i].sq[1]-'1')*8 + int(base[i].sq[0]-'a')
				code := map[byte]int8{'N': 2, 'B': 3, 'R': 4, 'Q': 5}[base[i].pc&^0x20]
				if base[i].pc >= 'a' {
					code = -code
				}
				r.B[sq] = code
				left -= base[i].v
			}
		}
		if left != 0 {
			continue
		}
		w := r.FEN()
		r.White = false
		res[target] = [2]string{w, r.FEN()}
	}
	return res
}

func c13Grid(run *vl.Run) {
	phases := phasePositions()
	run.Set("game_phases_covered", len(phases))
	var rems []time.Duration
	for _, ms := range []int64{1, 2, 5, 10, 20, 50, 99, 100, 101, 111, 112, 200, 500, 999, 1000, 1500, 2000, 3000, 5000, 10000, 15000, 30000, 60000, 90000, 120000,
		180000, 300000, 600000, 900000, 1800000, 3600000, 5400000, 7200000, 10800000} {
		rems = append(rems, time.Duration(ms)*time.Millisecond)
	}
	incFactors := []float64{0, 0.001, 0.01, 0.02, 0.05, 0.1, 0.2, 0.5, 1, 2}
	incAbs := []time.Duration{0, time.Millisecond, 10 * time.Millisecond, 100 * time.Millisecond, time.Second, 2 * time.Second, 5 * time.Second, 10 * time.Second, 30 * time.Second}
	var mtgs []int
	for m := 0; m <= 40; m++ {
		mtgs = append(mtgs, m)
	}
	mtgs = append(mtgs, 80)
	s := search.NewSearch()
	var cases int64
	for ph, fens := range phases {
		for side, fen := range fens {
			p, err := position.NewPositionFen(fen)
			if err != nil || p.GamePhase() != ph {
				fmt.Fprintln(os.Stderr, "harness error: phase position wrong", fen, ph)
				os.Exit(2)
			}
			for _, rem := range rems {
				incs := map[time.Duration]bool{}
				for _, f := range incFactors {
					incs[time.Duration(float64(rem)*f)] = true
				}
				for _, a := range incAbs {
					incs[a] = true
				}
				for inc := range incs {
					for _, mtg := range mtgs {
						sl := search.Limits{TimeControl: true, MovesToGo: mtg}
						if side == 0 {
							sl.WhiteTime, sl.WhiteInc = rem, inc
							sl.BlackTime, sl.BlackInc = time.Hour, 0
						} else {
							sl.BlackTime, sl.BlackInc = rem, inc
							sl.WhiteTime, sl.WhiteInc = time.Hour, 0
						}
						b := s.VerifTimeBudget(p, &sl)
						cases++
						rep := map[string]interface{}{"kind": "budget", "fen": fen, "remaining_ms": rem.Milliseconds(), "increment_ms": inc.Milliseconds(), "movestogo": mtg, "budget_ms": float64(b) / 1e6}
						if b > rem {
							run.Violate("budget-exceeds-remaining-time", fmt.Sprintf("time allotted %v exceeds the remaining clock time %v (increment %v, movestogo %d)", b, rem, inc, mtg), rep)
						}
						n := int64(mtg)
						if n == 0 {
							n = 15
						}
						if time.Duration(n)*b > rem+time.Duration(n)*inc {
							run.Violate("budget-does-not-fit-movestogo", fmt.Sprintf("%d x %v exceeds remaining %v + %d x %v", n, b, rem, n, inc), rep)
						}
						if b < 0 {
							run.Violate("budget-negative", "negative time budget", rep)
						}
					}
				}
			}
		}
	}
	run.AddEvals(cases)
	run.Set("budget_grid_cases", cases)
	run.Sample(map[string]interface{}{"kind": "budget", "remaining_ms": 100, "increment_ms": 10000, "movestogo": 0, "phase": 24})
}

func c13(tier string, args []string) int {
	run := vl.NewRun("C13", tier)
	if !sched.IsInstrumented("search") {
		fmt.Fprintln(os.Stderr, "C13 needs the instrumented build")
		return 2
	}
	run.Rule("(a) complete grid remaining time x increment x moves-to-go x game phase x colour through the time-budget hook; (b) fixed move time under virtual time with a step-cost model, all schedules within the deviation bound; (c) every position x depth 1..D: iterations completed; (d) every position x node limit 1..N: overshoot; (e) every position x every non-empty subset of size <=2 of the root moves and its complement as searchmoves list (API and UCI)")
	run.Assume("host scheduling latency is not decided (virtual time): the move-time clause is decided as 'the stop is set no later than the budget plus one polling interval and the search answers within a bounded number of its own steps'")
	baseSearchConfig()
	config.Settings.Search.UseBook = false
	shard, n, worker := vl.WorkerShard()
	if !worker {
		return run.RunWorkers(16)
	}
	run.SetDeadline(budget(tier))
	if shard == 0 {
		c13Grid(run)
	}
	maxDepth, maxNodes := 3, 40
	small := smallSearchPositions(0)
	nTest := 30
	if tier == "thorough" {
		maxDepth, maxNodes, nTest = 4, 120, 150
	}
	var fens []string
	for i, f := range append(append([]string{}, small...), testdataFens(nTest)...) {
		r, err := refchess.ParseFEN(f)
		if err != nil || !r.Valid() || r.Half >= 100 {
			continue
		}
		if tier != "thorough" && i < len(small) && i%5 != 0 {
			continue
		}
		fens = append(fens, f)
	}
	mg := movegen.NewMoveGen()
	for fi, fen := range fens {
		if fi%n != shard || run.Expired() {
			continue
		}
		r := refchess.MustFEN(fen)
		legal := r.LegalMoves()
		// (c) depth limits
		for d := 1; d <= maxDepth; d++ {
			res, _, x := schedSearch(fen, search.Limits{Depth: d}, sched.Options{})
			run.AddStates(1)
			run.AddTransitions(int64(x.Steps))
			rep := map[string]interface{}{"kind": "search", "fen": fen, "limit": fmt.Sprintf("depth %d", d)}
			if x.Verdict != "" {
				run.Violate("depth-search:"+x.Verdict, x.Detail, rep)
				continue
			}
			want := d
			if len(legal) <= 1 {
				want = -1 // terminal or single legal move: answered early by design
			}
			if want > 0 && res.SearchDepth != want {
				run.Violate("depth-not-completed", fmt.Sprintf("go depth %d completed %d iterations", d, res.SearchDepth), rep)
			}
		}
		if len(legal) == 0 {
			continue
		}
		// (d) node limits
		for nn := 1; nn <= maxNodes; nn++ {
			_, nodes, x := schedSearch(fen, search.Limits{Nodes: uint64(nn)}, sched.Options{})
			run.AddStates(1)
			run.AddTransitions(int64(x.Steps))
			rep := map[string]interface{}{"kind": "search", "fen": fen, "limit": fmt.Sprintf("nodes %d", nn), "nodes_visited": nodes, "root_moves": len(legal)}
			if x.Verdict != "" {
				run.Violate("node-search:"+x.Verdict, x.Detail, rep)
				continue
			}
			if nodes > uint64(nn+len(legal)+2) {
				run.Violate("node-limit-overshoot", fmt.Sprintf("go nodes %d visited %d nodes (root has %d moves)", nn, nodes, len(legal)), rep)
			}
		}
		// (e) searchmoves: subsets of size 1, 2 and their complements
		p, _ := position.NewPositionFen(fen)
		engLegal := append([]Move{}, (*mg.GenerateLegalMoves(p, movegen.GenAll))...)
		if len(engLegal) < 2 || fi%3 != 0 {
			continue
		}
		var subsets [][]int
		for a := 0; a < len(engLegal); a++ {
			subsets = append(subsets, []int{a})
			for b := a + 1; b < len(engLegal) && len(engLegal) <= 12; b++ {
				subsets = append(subsets, []int{a, b})
			}
		}
		for _, sub := range subsets {
			for _, complement := range []bool{false, true} {
				in := map[int]bool{}
				for _, i := range sub {
					in[i] = true
				}
				var list []Move
				for i, m := range engLegal {
					if in[i] != complement {
						list = append(list, m)
					}
				}
				if len(list) == 0 {
					continue
				}
				sl := search.Limits{Depth: 2}
				var names []string
				for _, m := range list {
					sl.Moves.PushBack(m)
					names = append(names, m.StringUci())
				}
				res, _, x := schedSearch(fen, sl, sched.Options{})
				run.AddStates(1)
				rep := map[string]interface{}{"kind": "search", "fen": fen, "limit": "depth 2", "searchmoves": strings.Join(names, " "), "bestmove": res.BestMove.StringUci()}
				if x.Verdict != "" {
					run.Violate("searchmoves-search:"+x.Verdict, x.Detail, rep)
					continue
				}
				found := false
				for _, m := range list {
					if m.MoveOf() == res.BestMove.MoveOf() {
						found = true
					}
				}
				if !found {
					run.Violate("searchmoves-ignored", "best move "+res.BestMove.StringUci()+" is not in the searchmoves list", rep)
				}
				_ = eng.TupleOfEng
			}
		}
	}
	// (b) move time under virtual time: every schedule within the bound; the search has no depth limit so only the timer ends it
	c13MoveTime(run, tier, shard, n)
	if shard == 2%n {
		c13AfterEarlierSearches(run)
	}
	return run.FinishWorker()
}

func c13MoveTime(run *vl.Run, tier string, shard, n int) {
	job := 0
	bound := 1
	if tier == "thorough" {
		bound = 2
	}
	for _, mt := range []time.Duration{25 * time.Millisecond, 40 * time.Millisecond} {
		for _, fen := range []string{lcFens["A"], "8/8/8/8/8/8/Q7/K1k5 w - - 0 1"} {
			job++
			if (n-job)%n != shard {
				continue
			}
			var maxT time.Duration
			var execs int
			body := func() {
				s := search.NewSearch()
				s.SetUciHandler(&mockDriver{})
				p, _ := position.NewPositionFen(fen)
				sched.Record("go", "")
				s.StartSearch(*p, search.Limits{TimeControl: true, MoveTime: mt, Depth: 6})
				s.WaitWhileSearching()
			}
			ex := &sched.Explorer{Bound: bound, Body: body, MaxExec: 30000, Opt: sched.Options{StepCost: 20 * time.Microsecond, MaxSteps: 400000}}
			ex.Check = func(x *sched.Exec) {
				execs++
				run.AddTransitions(int64(x.Steps))
				rep := map[string]interface{}{"kind": "schedule", "fen": fen, "movetime_ms": mt.Milliseconds(), "choices": x.Choices, "events": x.EventsString()}
				if x.Verdict != "" {
					run.Violate("movetime:"+x.Verdict, x.Detail, rep)
					return
				}
				for _, e := range x.Events {
					if e.Name == "result" {
						if e.T > maxT {
							maxT = e.T
						}
						// allowance: one polling interval (5 ms) plus the steps the search needs to notice the flag
						if e.T > mt+6*time.Millisecond {
							run.Violate("movetime-exceeded", fmt.Sprintf("bestmove at virtual time %v for movetime %v", e.T, mt), rep)
						}
					}
				}
			}
			ex.Explore()
			run.AddEvals(int64(execs))
			if ex.Capped {
				run.Cap("move-time exploration capped at 30000 schedules")
			}
			run.SampleCat("movetime", map[string]interface{}{"fen": fen, "movetime_ms": mt.Milliseconds(), "schedules": execs, "latest_bestmove_virtual_ms": float64(maxT) / 1e6, "bound": bound})
		}
	}
}

// c13AfterEarlierSearches: the depth and node clauses on a Search instance that has searched before - after a movetime
// search that ended by itself, after a ponder search that was hit (its timer runs) and after one that was stopped, each
// followed by an idle of 10 or 20 ms (beyond the 5 ms polling period of a timer thread): the depth-limited search then
// completes its iterations, whatever is left of the earlier search. Default schedule under the step-cost time model.
func c13AfterEarlierSearches(run *vl.Run) {
	type first struct {
		name string
		sl   search.Limits
		then string
	}
	firsts := []first{
		{"movetime 65 ms, depth 1", search.Limits{TimeControl: true, MoveTime: 65 * time.Millisecond, Depth: 1}, "wait"},
		{"ponder with 300 ms on the clock, depth 1, ponderhit", search.Limits{Ponder: true, TimeControl: true, WhiteTime: 300 * time.Millisecond, BlackTime: 300 * time.Millisecond, Depth: 1}, "ponderhit"},
		{"ponder with 300 ms on the clock, depth 1, stop", search.Limits{Ponder: true, TimeControl: true, WhiteTime: 300 * time.Millisecond, BlackTime: 300 * time.Millisecond, Depth: 1}, "stop"},
	}
	fenA, fenB := "rnbqkbnr/pppppppp/8/8/8/8/PPPPPPPP/RNBQKBNR w KQkq - 0 1", "7k/8/8/8/8/8/8/K7 b - - 0 1"
	for _, f := range firsts {
		for _, idle := range []time.Duration{10 * time.Millisecond, 20 * time.Millisecond} {
			f, idle := f, idle
			var res search.Result
			body := func() {
				config.Settings.Search.UseBook = false
				s := search.NewSearch()
				s.SetUciHandler(&mockDriver{})
				pb, _ := position.NewPositionFen(fenB)
				s.StartSearch(*pb, f.sl)
				switch f.then {
				case "ponderhit":
					s.PonderHit()
				case "stop":
					s.StopSearch()
				}
				s.WaitWhileSearching()
				sched.Sleep(idle)
				pa, _ := position.NewPositionFen(fenA)
				s.StartSearch(*pa, search.Limits{Depth: 4})
				s.WaitWhileSearching()
				res = s.LastSearchResult()
			}
			// step-cost time model: computing takes virtual time, so a timer thread left over from the first search gets its
			// polls while the depth-limited search is still iterating (default schedule)
			ex := &sched.Explorer{Bound: 0, Body: body, MaxExec: 1000, Deadline: run.DeadlineTime(), Opt: sched.Options{StepCost: 20 * time.Microsecond, MaxSteps: 30000000, MaxTicks: 40000}}
			ex.Check = func(x *sched.Exec) {
				run.AddTransitions(int64(x.Steps))
				rep := map[string]interface{}{"kind": "schedule", "first_search": f.name, "idle": idle.String(), "then": "go depth 4 on " + fenA, "choices": x.Choices}
				if x.Verdict != "" {
					run.Violate("depth-after-earlier-search:"+x.Verdict, x.Detail, rep)
					return
				}
				if res.SearchDepth != 4 && x.Deviations() == 0 {
					run.Violate("depth-not-completed:after-earlier-search", fmt.Sprintf("after an earlier search (%s) and %v of idling, go depth 4 completed %d iterations", f.name, idle, res.SearchDepth), rep)
				}
			}
			ex.Explore()
			run.AddStates(1)
			run.AddEvals(int64(ex.Executions))
			if ex.Capped {
				run.Cap("after-earlier-searches sessions capped")
			}
			run.SampleCat("depth limit after an earlier search", map[string]interface{}{"first": f.name, "idle": idle.String(), "schedules": ex.Executions})
		}
	}
}
