package main

import (
	"encoding/json"
	"fmt"
	"io/ioutil"
	"os"
	"strings"

	"github.com/frankkopp/FrankyGo/internal/evaluator"
	"github.com/frankkopp/FrankyGo/internal/movegen"
	"github.com/frankkopp/FrankyGo/internal/position"
	"github.com/frankkopp/FrankyGo/internal/search"
	tt "github.com/frankkopp/FrankyGo/internal/transpositiontable"

	"github.com/frankkopp/FrankyGo/verif/eng"
	"github.com/frankkopp/FrankyGo/verif/refchess"
	"github.com/frankkopp/FrankyGo/verif/sched"
	"github.com/frankkopp/FrankyGo/verif/vl"
)

func init() { registry["REPLAY"] = replayCmd }

// replayCmd re-executes one replay artefact without the explorer: vcheck REPLAY <path>
// (bin/replay picks the right binary). It prints what it observes and exits 1 if the violation shows again.
func replayCmd(path string, args []string) int {
	b, err := ioutil.ReadFile(path)
	if err != nil {
		fmt.Fprintln(os.Stderr, err)
		return 2
	}
	var art struct {
		Property string                 `json:"property"`
		Key      string                 `json:"key"`
		What     string                 `json:"what"`
		Replay   map[string]interface{} `json:"replay"`
	}
	if err := json.Unmarshal(b, &art); err != nil {
		fmt.Fprintln(os.Stderr, err)
		return 2
	}
	os.Setenv("VERIF_ROOT", os.TempDir()) // a replay never touches evidence or replay files of /verif
	run := vl.NewRun(art.Property, "quick")
	kind, _ := art.Replay["kind"].(string)
	fmt.Printf("replaying %s key=%s kind=%s\n", art.Property, art.Key, kind)
	strs := func(k string) []string {
		var res []string
		if l, ok := art.Replay[k].([]interface{}); ok {
			for _, x := range l {
				res = append(res, fmt.Sprint(x))
			}
		}
		return res
	}
	switch kind {
	case "position":
		fen, _ := art.Replay["fen"].(string)
		seed, _ := art.Replay["seed_fen"].(string)
		w := &wctx{run: run, mg: movegen.NewMoveGen(), mg2: movegen.NewMoveGen(), fam: "replay"}
		var p *position.Position
		var r *refchess.Pos
		if seed != "" {
			p, _ = position.NewPositionFen(seed)
			r = refchess.MustFEN(seed)
			w.seed = seed
			for _, u := range strs("moves") {
				m, ok := r.FindUci(u)
				if !ok {
					fmt.Println("move of the artefact is not legal:", u)
					return 2
				}
				if isClampEvent(p, eng.EngMove(m)) {
					w.clampSeen = true
				}
				p.DoMove(eng.EngMove(m))
				r = r.Make(m)
				w.path = append(w.path, u)
			}
		} else {
			p, err = position.NewPositionFen(fen)
			if err != nil {
				fmt.Println("engine rejects the FEN:", err)
				return 1
			}
			r = refchess.MustFEN(fen)
		}
		fns := map[string]stateFn{"C01": c01State, "C02": c02State, "C04": c04State, "C08": c08State, "C09": c09State, "C15": c15State, "C17": c17State}
		switch art.Property {
		case "C03":
			w.user = &c03user{ev: evaluator.NewEvaluator()}
			c03Pre(w, p, r)
			c03Post(w, p, r)
		case "C04":
			w.user = &c04user{keys: map[position.Key]string{}}
			c04State(w, p, r)
		case "C08":
			w.user = newC08user()
			c08State(w, p, r)
		case "C15":
			w.user = &c15user{ev: evaluator.NewEvaluator(), cfg: "as configured"}
			c15State(w, p, r)
		default:
			fn, ok := fns[art.Property]
			if !ok {
				fmt.Println("no position replayer for", art.Property)
				return 2
			}
			if msg, pan := vl.Guard(func() { fn(w, p, r) }); pan {
				fmt.Println("panic:", msg)
				return 1
			}
		}
	case "ops":
		if art.Property != "C11" {
			fmt.Println(string(b))
			return 2
		}
		ops := c11Alphabet()
		table := tt.NewTtTable(1)
		table.VerifShrink(ttSlots)
		m := newModel(ttSlots)
		for _, name := range strs("ops") {
			found := false
			for _, o := range ops {
				if o.String() == name {
					found = true
					cls, what := applyBoth(table, m, o, true)
					fmt.Printf("  %-70s %s %s\n", name, cls, what)
					if cls != "" {
						run.Violate(cls, what, nil)
					}
				}
			}
			if !found {
				fmt.Println("  unknown op", name)
			}
		}
	case "schedule":
		if art.Property != "C14" || !sched.IsInstrumented("search") {
			fmt.Println("schedule replays need the instrumented binary and are implemented for C14; artefact:")
			fmt.Println(string(b))
			return 2
		}
		var prog, choices []int
		for _, x := range art.Replay["ops"].([]interface{}) {
			prog = append(prog, int(x.(float64)))
		}
		for _, x := range art.Replay["choices"].([]interface{}) {
			choices = append(choices, int(x.(float64)))
		}
		baseSearchConfig()
		lcSweepIdles() // programs of the start-while-running sweep use idle ops that are created at run time
		x, same := sched.Replay(choices, lcBody(prog), sched.Options{})
		fmt.Println("program:", lcName(prog), "deterministic:", same, "verdict:", x.Verdict, x.Detail)
		for _, e := range x.EventsString() {
			fmt.Println("  ", e)
		}
		if !same {
			fmt.Println("NONDETERMINISM: two runs of the same schedule differ")
			return 2
		}
		for _, v := range lcCheck(prog, x) {
			fmt.Println("  oracle:", v.key, v.what)
			run.Violate(v.key, v.what, nil)
		}
	case "search":
		fen, _ := art.Replay["fen"].(string)
		limit, _ := art.Replay["limit"].(string)
		var sl search.Limits
		f := strings.Fields(limit)
		for i := 0; i+1 < len(f); i += 2 {
			var n int
			fmt.Sscan(f[i+1], &n)
			if f[i] == "depth" {
				sl.Depth = n
			}
			if f[i] == "nodes" {
				sl.Nodes = uint64(n)
			}
		}
		if sched.IsInstrumented("search") {
			fmt.Println("search replays use the plain binary")
			return 2
		}
		baseSearchConfig()
		p := casePos(fen)
		s := search.NewSearch()
		drv := &capDriver{}
		s.SetUciHandler(drv)
		if prev, _ := art.Replay["searched_before"].(string); prev != "" {
			runSearch(s, casePos(prev), search.Limits{Depth: 2, Nodes: 4000})
			drv.reset()
		}
		before := takeSnap(p, nil)
		res := runSearch(s, p, sl)
		fmt.Println("result:", res.String(), "(default configuration; the artefact's configuration is", art.Replay["config"], ")")
		c05Oracle(run, mustCaseRef(fen), fen, before, p, res, drv, map[string]interface{}{})
	default:
		fmt.Println(string(b))
		return 2
	}
	n := run.NumViolationClasses()
	fmt.Printf("violation classes observed on replay: %d\n", n)
	if n > 0 {
		return 1
	}
	return 0
}
