// vinstr generates instrumented copies of repository files for `go build -overlay`:
//   - imports of sync, time and golang.org/x/sync/semaphore are redirected to scheduler-controlled shims,
//   - go statements become sched.Go calls (arguments still evaluated at the go statement),
//   - before every statement that touches a field of a tracked receiver struct a sched.Acc call is inserted
//     (loops whose condition touches such a field are rewritten so that every evaluation is announced).
//
// The rewrite is purely syntactic (go/parser + go/printer) and is applied to /repo's current files at
// check time. Constructs the shims do not cover (channels, select, sync.Cond, time.Timer, context
// deadlines) make it fail with exit status 2.
//
// usage: vinstr <outdir>
package main

import (
	"bytes"
	"encoding/json"
	"fmt"
	"go/ast"
	"go/parser"
	"go/printer"
	"go/token"
	"io/ioutil"
	"os"
	"path/filepath"
	"strconv"
	"strings"
)

// repo: the tree the instrumented copies are generated from (/repo; VERIF_REPO overrides it for seeded-defect runs on scratch copies)
var repo = func() string {
	if r := os.Getenv("VERIF_REPO"); r != "" {
		return r
	}
	return "/repo"
}()
const shimBase = "github.com/frankkopp/FrankyGo/verif/sched"

type target struct {
	file     string   // relative to repo
	structs  []string // tracked receiver struct types declared in the package
	wantGo   int      // minimum number of go statements expected (anchor)
	skip     map[string]bool
	readOnly map[string]bool
}

var roMethods = map[string]bool{"String": true, "StringUci": true, "Len": true, "Hashfull": true, "At": true, "StringFen": true,
	"ZobristKey": true, "NextPlayer": true, "HasCheck": false, "Milliseconds": true, "Nanoseconds": true, "IsZero": true, "Sub": true, "Add": true, "Before": true, "After": true}

var targets = []target{
	{file: "internal/search/search.go", structs: []string{"Search"}, wantGo: 2,
		skip: map[string]bool{"log": true, "slog": true, "uciHandlerPtr": true, "initSemaphore": true, "isRunning": true}},
	{file: "internal/search/alphabeta.go", structs: []string{"Search"}, wantGo: 0,
		skip: map[string]bool{"log": true, "slog": true, "uciHandlerPtr": true, "initSemaphore": true, "isRunning": true}},
	{file: "internal/uci/uci.go", structs: []string{"UciHandler"}, wantGo: 0, skip: map[string]bool{"uciLog": true}},
	{file: "internal/openingbook/openingbook.go", structs: []string{"Book"}, wantGo: 3, skip: map[string]bool{}},
	{file: "internal/movegen/perft.go", structs: []string{"Perft"}, wantGo: 0, skip: map[string]bool{}},
	{file: "internal/util/atomicbool.go", structs: nil, wantGo: 0, skip: map[string]bool{}},
}

func fail(format string, a ...interface{}) {
	fmt.Fprintf(os.Stderr, "vinstr: "+format+"\n", a...)
	os.Exit(2)
}

type instr struct {
	fset     *token.FileSet
	tracked  map[string]map[string]bool // struct -> field -> pointerLike
	skip     map[string]bool
	recv     string // receiver identifier of the current method
	strct    string
	goCount  int
	accCount int
	tmpN     int
}

// structFields reads the field list of the tracked structs from all files of the package.
func structFields(dir string, names []string) map[string]map[string]bool {
	res := map[string]map[string]bool{}
	fset := token.NewFileSet()
	pkgs, err := parser.ParseDir(fset, dir, func(fi os.FileInfo) bool { return !strings.HasSuffix(fi.Name(), "_test.go") }, 0)
	if err != nil {
		fail("parse %s: %v", dir, err)
	}
	for _, pkg := range pkgs {
		for _, f := range pkg.Files {
			ast.Inspect(f, func(n ast.Node) bool {
				ts, ok := n.(*ast.TypeSpec)
				if !ok {
					return true
				}
				st, ok := ts.Type.(*ast.StructType)
				if !ok {
					return true
				}
				for _, want := range names {
					if ts.Name.Name != want {
						continue
					}
					m := map[string]bool{}
					for _, fld := range st.Fields.List {
						ptr := false
						switch t := fld.Type.(type) {
						case *ast.StarExpr, *ast.ArrayType, *ast.MapType, *ast.InterfaceType, *ast.ChanType:
							ptr = true
							if at, ok := t.(*ast.ArrayType); ok && at.Len != nil {
								ptr = false // fixed-size array is a value
							}
						}
						if isAtomicType(fld.Type) {
							continue // atomic wrapper: a synchronisation object, not data
						}
						for _, nm := range fld.Names {
							m[nm.Name] = ptr
						}
					}
					res[want] = m
				}
				return true
			})
		}
	}
	for _, n := range names {
		if res[n] == nil {
			fail("tracked struct %s not found in %s", n, dir)
		}
	}
	return res
}

func isAtomicType(t ast.Expr) bool {
	if st, ok := t.(*ast.StarExpr); ok {
		t = st.X
	}
	if se, ok := t.(*ast.SelectorExpr); ok {
		if id, ok := se.X.(*ast.Ident); ok {
			// atomic wrapper, mutexes, wait groups, semaphores: synchronisation objects (shimmed), not data
			if (id.Name == "util" && se.Sel.Name == "Bool") || id.Name == "sync" || id.Name == "semaphore" {
				return true
			}
		}
	}
	return false
}

type access struct {
	name  string
	write bool
}

// rootSel finds the `recv.Field` selector at the root of an expression chain and reports whether the chain
// continues beyond it (deref, further selector, index) and whether it ends in a method call.
func (in *instr) rootSel(e ast.Expr) (field string, deeper bool, ok bool) {
	for {
		switch x := e.(type) {
		case *ast.ParenExpr:
			e = x.X
		case *ast.StarExpr:
			e = x.X
			deeper = true
		case *ast.IndexExpr:
			e = x.X
			deeper = true
		case *ast.SliceExpr:
			e = x.X
			deeper = true
		case *ast.SelectorExpr:
			if id, isId := x.X.(*ast.Ident); isId && id.Name == in.recv && in.recv != "" {
				return x.Sel.Name, deeper, true
			}
			e = x.X
			deeper = true
		default:
			return "", false, false
		}
	}
}

func (in *instr) varName(field string, pointee bool) string {
	if pointee {
		return in.strct + "." + field + "*"
	}
	return in.strct + "." + field
}

// collect gathers the accesses made by evaluating expression e (not descending into function literals).
func (in *instr) collect(e ast.Node, out *[]access) {
	if e == nil {
		return
	}
	ast.Inspect(e, func(n ast.Node) bool {
		switch x := n.(type) {
		case *ast.FuncLit:
			return false
		case *ast.CallExpr:
			// method call through a tracked field: recv.F.M(...)
			if sel, ok := x.Fun.(*ast.SelectorExpr); ok {
				if f, _, ok := in.rootSel(sel.X); ok && in.isTracked(f) {
					in.add(out, in.varName(f, false), false)
					ptr := in.tracked[in.strct][f]
					w := !roMethods[sel.Sel.Name]
					if ptr {
						in.add(out, in.varName(f, true), w)
					} else if w {
						in.add(out, in.varName(f, false), true)
					}
					for _, a := range x.Args {
						in.collect(a, out)
					}
					// index expressions inside the receiver chain
					in.collectIndices(sel.X, out)
					return false
				}
			}
		case *ast.SelectorExpr, *ast.IndexExpr, *ast.StarExpr:
			if f, deeper, ok := in.rootSel(x.(ast.Expr)); ok && in.isTracked(f) {
				in.add(out, in.varName(f, false), false)
				if deeper && in.tracked[in.strct][f] {
					in.add(out, in.varName(f, true), false)
				}
				in.collectIndices(x.(ast.Expr), out)
				return false
			}
		}
		return true
	})
}

func (in *instr) collectIndices(e ast.Expr, out *[]access) {
	for {
		switch x := e.(type) {
		case *ast.ParenExpr:
			e = x.X
		case *ast.StarExpr:
			e = x.X
		case *ast.IndexExpr:
			in.collect(x.Index, out)
			e = x.X
		case *ast.SliceExpr:
			in.collect(x.Low, out)
			in.collect(x.High, out)
			e = x.X
		case *ast.SelectorExpr:
			e = x.X
		default:
			return
		}
	}
}

func (in *instr) isTracked(f string) bool {
	if in.skip[f] {
		return false
	}
	_, ok := in.tracked[in.strct][f]
	return ok
}

func (in *instr) add(out *[]access, name string, write bool) {
	for i, a := range *out {
		if a.name == name {
			if write {
				(*out)[i].write = true
			}
			return
		}
	}
	*out = append(*out, access{name, write})
}

// collectLHS: accesses made by assigning to e.
func (in *instr) collectLHS(e ast.Expr, out *[]access) {
	if f, deeper, ok := in.rootSel(e); ok && in.isTracked(f) {
		if deeper && in.tracked[in.strct][f] {
			in.add(out, in.varName(f, false), false)
			in.add(out, in.varName(f, true), true)
		} else {
			in.add(out, in.varName(f, false), true)
		}
		in.collectIndices(e, out)
		return
	}
	in.collect(e, out)
}

func (in *instr) accStmts(accs []access) []ast.Stmt {
	var res []ast.Stmt
	for _, a := range accs {
		in.accCount++
		w := "false"
		if a.write {
			w = "true"
		}
		res = append(res, &ast.ExprStmt{X: &ast.CallExpr{
			Fun:  &ast.SelectorExpr{X: ast.NewIdent("vsched"), Sel: ast.NewIdent("Acc")},
			Args: []ast.Expr{&ast.BasicLit{Kind: token.STRING, Value: strconv.Quote(a.name)}, ast.NewIdent(w)},
		}})
	}
	return res
}

// funcLits rewrites the bodies of function literals contained in the statement's expressions.
func (in *instr) funcLits(n ast.Node) {
	if n == nil {
		return
	}
	ast.Inspect(n, func(x ast.Node) bool {
		if fl, ok := x.(*ast.FuncLit); ok {
			fl.Body.List = in.block(fl.Body.List)
			return false
		}
		return true
	})
}

func (in *instr) block(list []ast.Stmt) []ast.Stmt {
	var res []ast.Stmt
	for _, st := range list {
		res = append(res, in.stmt(st)...)
	}
	return res
}

func (in *instr) stmt(st ast.Stmt) []ast.Stmt {
	var accs []access
	switch x := st.(type) {
	case *ast.BlockStmt:
		x.List = in.block(x.List)
		return []ast.Stmt{x}
	case *ast.LabeledStmt:
		inner := in.stmt(x.Stmt)
		x.Stmt = inner[len(inner)-1]
		return append(inner[:len(inner)-1], x)
	case *ast.AssignStmt:
		for _, r := range x.Rhs {
			in.collect(r, &accs)
			in.funcLits(r)
		}
		for _, l := range x.Lhs {
			if x.Tok == token.DEFINE {
				continue
			}
			in.collectLHS(l, &accs)
			if x.Tok != token.ASSIGN { // += etc also read
				in.collect(l, &accs)
			}
		}
	case *ast.IncDecStmt:
		in.collect(x.X, &accs)
		in.collectLHS(x.X, &accs)
	case *ast.ExprStmt:
		in.collect(x.X, &accs)
		in.funcLits(x.X)
	case *ast.ReturnStmt:
		for _, r := range x.Results {
			in.collect(r, &accs)
			in.funcLits(r)
		}
	case *ast.DeferStmt:
		in.collect(x.Call, &accs)
		in.funcLits(x.Call)
	case *ast.GoStmt:
		in.collect(x.Call, &accs)
		in.funcLits(x.Call)
		return append(in.accStmts(accs), in.goStmt(x))
	case *ast.IfStmt:
		if x.Init != nil {
			pre := in.stmt(x.Init)
			x.Init = pre[len(pre)-1]
			accsInit := pre[:len(pre)-1]
			in.collect(x.Cond, &accs)
			in.funcLits(x.Cond)
			x.Body.List = in.block(x.Body.List)
			in.elseBranch(x)
			return append(append(accsInit, in.accStmts(accs)...), x)
		}
		in.collect(x.Cond, &accs)
		in.funcLits(x.Cond)
		x.Body.List = in.block(x.Body.List)
		in.elseBranch(x)
	case *ast.ForStmt:
		var condAcc []access
		in.collect(x.Cond, &condAcc)
		x.Body.List = in.block(x.Body.List)
		if len(condAcc) > 0 {
			if x.Init != nil || x.Post != nil {
				// announce before the loop and at the end of every iteration (approximation for loops with post statement)
				x.Body.List = append(x.Body.List, in.accStmts(condAcc)...)
				return append(in.accStmts(condAcc), x)
			}
			// for cond { body }  =>  for { Acc...; if !(cond) { break }; body }
			brk := &ast.IfStmt{Cond: &ast.UnaryExpr{Op: token.NOT, X: &ast.ParenExpr{X: x.Cond}},
				Body: &ast.BlockStmt{List: []ast.Stmt{&ast.BranchStmt{Tok: token.BREAK}}}}
			x.Body.List = append(append(in.accStmts(condAcc), brk), x.Body.List...)
			x.Cond = nil
			return []ast.Stmt{x}
		}
		if x.Init != nil {
			var ia []access
			in.collectStmtExprs(x.Init, &ia)
			return append(in.accStmts(ia), x)
		}
		return []ast.Stmt{x}
	case *ast.RangeStmt:
		in.collect(x.X, &accs)
		x.Body.List = in.block(x.Body.List)
	case *ast.SwitchStmt:
		if x.Init != nil {
			in.collectStmtExprs(x.Init, &accs)
		}
		in.collect(x.Tag, &accs)
		for _, c := range x.Body.List {
			cc := c.(*ast.CaseClause)
			for _, e := range cc.List {
				in.collect(e, &accs)
			}
			cc.Body = in.block(cc.Body)
		}
	case *ast.TypeSwitchStmt:
		for _, c := range x.Body.List {
			cc := c.(*ast.CaseClause)
			cc.Body = in.block(cc.Body)
		}
	case *ast.SelectStmt, *ast.SendStmt:
		fail("%s: unsupported construct (channel operation) at %s", in.strct, in.fset.Position(st.Pos()))
	case *ast.DeclStmt:
		ast.Inspect(x, func(n ast.Node) bool {
			if vs, ok := n.(*ast.ValueSpec); ok {
				for _, v := range vs.Values {
					in.collect(v, &accs)
					in.funcLits(v)
				}
			}
			return true
		})
	}
	return append(in.accStmts(accs), st)
}

func (in *instr) collectStmtExprs(s ast.Stmt, out *[]access) {
	switch x := s.(type) {
	case *ast.AssignStmt:
		for _, r := range x.Rhs {
			in.collect(r, out)
		}
	case *ast.ExprStmt:
		in.collect(x.X, out)
	}
}

func (in *instr) elseBranch(x *ast.IfStmt) {
	switch e := x.Else.(type) {
	case *ast.BlockStmt:
		e.List = in.block(e.List)
	case *ast.IfStmt:
		// else if c {..}  =>  else { Acc...; if c {..} }
		x.Else = &ast.BlockStmt{List: in.stmt(e)}
	}
}

// goStmt: go f(a, b) => { t0, t1 := a, b; vsched.Go("name", func() { f(t0, t1) }) }
func (in *instr) goStmt(g *ast.GoStmt) ast.Stmt {
	in.goCount++
	call := g.Call
	name := "goroutine"
	switch f := call.Fun.(type) {
	case *ast.SelectorExpr:
		name = f.Sel.Name
	case *ast.Ident:
		name = f.Name
	case *ast.FuncLit:
		name = fmt.Sprintf("func@%d", in.fset.Position(g.Pos()).Line)
	}
	var pre []ast.Stmt
	if len(call.Args) > 0 {
		var lhs []ast.Expr
		for range call.Args {
			in.tmpN++
			lhs = append(lhs, ast.NewIdent(fmt.Sprintf("verifArg%d", in.tmpN)))
		}
		pre = append(pre, &ast.AssignStmt{Lhs: lhs, Tok: token.DEFINE, Rhs: call.Args})
		call.Args = append([]ast.Expr{}, lhs...)
	}
	goCall := &ast.ExprStmt{X: &ast.CallExpr{
		Fun: &ast.SelectorExpr{X: ast.NewIdent("vsched"), Sel: ast.NewIdent("Go")},
		Args: []ast.Expr{&ast.BasicLit{Kind: token.STRING, Value: strconv.Quote(name)},
			&ast.FuncLit{Type: &ast.FuncType{Params: &ast.FieldList{}}, Body: &ast.BlockStmt{List: []ast.Stmt{&ast.ExprStmt{X: call}}}}},
	}}
	return &ast.BlockStmt{List: append(pre, goCall)}
}

func main() {
	if len(os.Args) < 2 {
		fail("usage: vinstr <outdir>")
	}
	outdir := os.Args[1]
	os.RemoveAll(outdir)
	overlay := map[string]string{}
	pkgsDone := map[string]bool{}
	summary := map[string]interface{}{}
	for _, tg := range targets {
		src := filepath.Join(repo, tg.file)
		dir := filepath.Dir(src)
		fset := token.NewFileSet()
		f, err := parser.ParseFile(fset, src, nil, parser.ParseComments)
		if err != nil {
			fail("parse %s: %v", src, err)
		}
		in := &instr{fset: fset, tracked: structFields(dir, tg.structs), skip: tg.skip}
		// imports
		for _, imp := range f.Imports {
			p, _ := strconv.Unquote(imp.Path.Value)
			repl, name := "", ""
			switch p {
			case "sync":
				repl, name = shimBase+"/vsync", "sync"
			case "time":
				repl, name = shimBase+"/vtime", "time"
			case "golang.org/x/sync/semaphore":
				repl, name = shimBase+"/vsem", "semaphore"
			case "sync/atomic":
				repl, name = shimBase+"/vatomic", "atomic"
			}
			if repl != "" {
				if imp.Name != nil && imp.Name.Name != name {
					fail("%s: import %s is renamed to %s: not supported", tg.file, p, imp.Name.Name)
				}
				imp.Path.Value = strconv.Quote(repl)
				imp.Name = ast.NewIdent(name)
			}
		}
		// unsupported constructs anywhere in the file
		ast.Inspect(f, func(n ast.Node) bool {
			switch x := n.(type) {
			case *ast.ChanType:
				fail("%s: channel type at %s: not supported by the shims", tg.file, fset.Position(x.Pos()))
			case *ast.SelectorExpr:
				if id, ok := x.X.(*ast.Ident); ok {
					if (id.Name == "sync" && (x.Sel.Name == "Cond" || x.Sel.Name == "Map" || x.Sel.Name == "Pool")) ||
						(id.Name == "time" && (x.Sel.Name == "Timer" || x.Sel.Name == "AfterFunc" || x.Sel.Name == "After" || x.Sel.Name == "NewTimer" || x.Sel.Name == "Tick" || x.Sel.Name == "NewTicker")) ||
						(id.Name == "context" && (x.Sel.Name == "WithTimeout" || x.Sel.Name == "WithDeadline" || x.Sel.Name == "WithCancel")) {
						fail("%s: %s.%s at %s: not supported by the shims", tg.file, id.Name, x.Sel.Name, fset.Position(x.Pos()))
					}
				}
			}
			return true
		})
		// functions
		for _, d := range f.Decls {
			fd, ok := d.(*ast.FuncDecl)
			if !ok || fd.Body == nil {
				continue
			}
			in.recv, in.strct = "", ""
			if len(tg.structs) > 0 {
				in.strct = tg.structs[0]
			}
			if fd.Recv != nil && len(fd.Recv.List) == 1 && len(fd.Recv.List[0].Names) == 1 {
				t := fd.Recv.List[0].Type
				if st, ok := t.(*ast.StarExpr); ok {
					t = st.X
				}
				if id, ok := t.(*ast.Ident); ok {
					for _, s := range tg.structs {
						if id.Name == s {
							in.recv, in.strct = fd.Recv.List[0].Names[0].Name, s
						}
					}
				}
			}
			fd.Body.List = in.block(fd.Body.List)
		}
		if in.goCount < tg.wantGo {
			fail("%s: expected at least %d go statements, found %d (anchor lost - adapt cmd/vinstr)", tg.file, tg.wantGo, in.goCount)
		}
		// add the scheduler import
		ast.Inspect(f, func(n ast.Node) bool {
			if gd, ok := n.(*ast.GenDecl); ok && gd.Tok == token.IMPORT {
				gd.Specs = append(gd.Specs, &ast.ImportSpec{Name: ast.NewIdent("vsched"), Path: &ast.BasicLit{Kind: token.STRING, Value: strconv.Quote(shimBase)}})
				return false
			}
			return true
		})
		var buf bytes.Buffer
		if err := printer.Fprint(&buf, fset, f); err != nil {
			fail("print %s: %v", tg.file, err)
		}
		// keep the import used even if no call was inserted
		buf.WriteString("\nvar _ = vsched.Active\n")
		out := filepath.Join(outdir, tg.file)
		os.MkdirAll(filepath.Dir(out), 0755)
		if err := ioutil.WriteFile(out, buf.Bytes(), 0644); err != nil {
			fail("write: %v", err)
		}
		overlay[src] = out
		pkgDir := filepath.Dir(tg.file)
		if !pkgsDone[pkgDir] {
			pkgsDone[pkgDir] = true
			marker := filepath.Join(outdir, pkgDir, "verif_instrumented.go")
			pkgName := f.Name.Name
			ioutil.WriteFile(marker, []byte(fmt.Sprintf("package %s\n\nimport vsched %q\n\nfunc init() { vsched.MarkInstrumented(%q) }\n", pkgName, shimBase, pkgName)), 0644)
			overlay[filepath.Join(repo, pkgDir, "verif_instrumented.go")] = marker
		}
		summary[tg.file] = map[string]int{"go_statements": in.goCount, "access_calls": in.accCount}
	}
	b, _ := json.MarshalIndent(map[string]interface{}{"Replace": overlay}, "", " ")
	ioutil.WriteFile(filepath.Join(outdir, "overlay.json"), b, 0644)
	sb, _ := json.MarshalIndent(summary, "", " ")
	ioutil.WriteFile(filepath.Join(outdir, "summary.json"), sb, 0644)
	fmt.Println(string(sb))
}
