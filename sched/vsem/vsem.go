// Package vsem is a scheduler-controlled replacement for golang.org/x/sync/semaphore.
package vsem

import (
	"context"

	"github.com/frankkopp/FrankyGo/verif/sched"
)

type Weighted struct {
	size, cur int64
	vc        sched.VC
}

func NewWeighted(n int64) *Weighted { return &Weighted{size: n} }

func (w *Weighted) Acquire(ctx context.Context, n int64) error {
	sched.Point("sem.Acquire")
	sched.Block("sem.Acquire", func() bool { return w.cur+n <= w.size })
	w.cur += n
	w.vc.AcquireHB()
	return nil
}

func (w *Weighted) TryAcquire(n int64) bool {
	sched.Point("sem.TryAcquire")
	if w.cur+n <= w.size {
		w.cur += n
		w.vc.AcquireHB()
		return true
	}
	return false
}

func (w *Weighted) Release(n int64) {
	sched.Point("sem.Release")
	w.cur -= n
	if w.cur < 0 {
		panic("semaphore: released more than held")
	}
	w.vc.ReleaseHB()
}
