// Package vsync is a scheduler-controlled replacement for the parts of package sync the engine uses.
package vsync

import (
	"github.com/frankkopp/FrankyGo/verif/sched"
)

type Mutex struct {
	held bool
	vc   sched.VC
}

// mutexes locked during the current execution: package-level mutexes of the code under test outlive an
// execution, so whatever an abandoned execution left locked is released when the next one starts
var lockedNow = map[*Mutex]bool{}

func init() {
	sched.OnRunStart(func() {
		for m := range lockedNow {
			m.held = false
			m.vc = sched.VC{}
		}
		lockedNow = map[*Mutex]bool{}
	})
}

func (m *Mutex) Lock() {
	sched.Point("Mutex.Lock")
	sched.Block("Mutex.Lock", func() bool { return !m.held })
	m.held = true
	lockedNow[m] = true
	m.vc.AcquireHB()
}

func (m *Mutex) Unlock() {
	sched.Point("Mutex.Unlock")
	if !m.held {
		panic("sync: unlock of unlocked mutex")
	}
	m.held = false
	m.vc.ReleaseHB()
}

type RWMutex struct {
	w       bool
	readers int
	vc      sched.VC
}

func (m *RWMutex) Lock() {
	sched.Point("RWMutex.Lock")
	sched.Block("RWMutex.Lock", func() bool { return !m.w && m.readers == 0 })
	m.w = true
	m.vc.AcquireHB()
}
func (m *RWMutex) Unlock() {
	sched.Point("RWMutex.Unlock")
	m.w = false
	m.vc.ReleaseHB()
}
func (m *RWMutex) RLock() {
	sched.Point("RWMutex.RLock")
	sched.Block("RWMutex.RLock", func() bool { return !m.w })
	m.readers++
	m.vc.AcquireHB()
}
func (m *RWMutex) RUnlock() {
	sched.Point("RWMutex.RUnlock")
	m.readers--
	m.vc.ReleaseHB()
}

type WaitGroup struct {
	n  int
	vc sched.VC
}

func (w *WaitGroup) Add(d int) {
	sched.Point("WaitGroup.Add")
	w.n += d
	if w.n < 0 {
		panic("sync: negative WaitGroup counter")
	}
	if d < 0 {
		w.vc.ReleaseHB()
	}
}
func (w *WaitGroup) Done() { w.Add(-1) }
func (w *WaitGroup) Wait() {
	sched.Point("WaitGroup.Wait")
	sched.Block("WaitGroup.Wait", func() bool { return w.n == 0 })
	w.vc.AcquireHB()
}

type Once struct {
	done bool
	m    Mutex
}

func (o *Once) Do(f func()) {
	o.m.Lock()
	defer o.m.Unlock()
	if !o.done {
		o.done = true
		f()
	}
}
