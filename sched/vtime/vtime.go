// Package vtime is a scheduler-controlled replacement for the parts of package time the engine uses.
// Duration and Time are aliases of the real types so that signatures shared with files that are not
// rewritten still match.
package vtime

import (
	"time"

	"github.com/frankkopp/FrankyGo/verif/sched"
)

type Duration = time.Duration
type Time = time.Time
type Month = time.Month

const (
	Nanosecond  = time.Nanosecond
	Microsecond = time.Microsecond
	Millisecond = time.Millisecond
	Second      = time.Second
	Minute      = time.Minute
	Hour        = time.Hour
)

func Now() Time { return sched.Now() }

func Since(t Time) Duration { return sched.Now().Sub(t) }

func Sleep(d Duration) {
	if !sched.Active() {
		time.Sleep(d)
		return
	}
	sched.Sleep(d)
}
