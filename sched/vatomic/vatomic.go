// Package vatomic is a scheduler-controlled replacement for the sync/atomic functions the engine uses.
// Every operation is a scheduling point; a store/CAS/swap releases and every operation acquires the
// happens-before clock kept per address.
package vatomic

import (
	"github.com/frankkopp/FrankyGo/verif/sched"
)

var clocks = map[*uint32]*sched.VC{}

func init() {
	// the clocks are keyed by address: forget them between executions (the objects must not be kept alive)
	sched.OnRunStart(func() { clocks = map[*uint32]*sched.VC{} })
}

func vc(addr *uint32) *sched.VC {
	c := clocks[addr]
	if c == nil {
		c = &sched.VC{}
		clocks[addr] = c
	}
	return c
}

func LoadUint32(addr *uint32) uint32 {
	sched.Point("atomic.Load")
	v := *addr
	vc(addr).AcquireHB()
	return v
}

func StoreUint32(addr *uint32, val uint32) {
	sched.Point("atomic.Store")
	*addr = val
	vc(addr).ReleaseHB()
}

func SwapUint32(addr *uint32, new uint32) uint32 {
	sched.Point("atomic.Swap")
	old := *addr
	*addr = new
	c := vc(addr)
	c.AcquireHB()
	c.ReleaseHB()
	return old
}

func CompareAndSwapUint32(addr *uint32, old, new uint32) bool {
	sched.Point("atomic.CAS")
	c := vc(addr)
	c.AcquireHB()
	if *addr == old {
		*addr = new
		c.ReleaseHB()
		return true
	}
	return false
}
