package sched

import (
	"fmt"
	"time"
)

// Explorer enumerates all schedules of Body within a deviation bound (stateless DFS: every
// execution is run from the start; a schedule is the vector of choices at the choice points).
// A deviation is (i) choosing another thread while the running one is still enabled (preemption) or
// (ii) choosing TICK while some thread could run (time passes during computation). Switches forced
// by blocking or termination and forced TICKs are free, but all their alternatives are explored.
type Explorer struct {
	Bound    int
	Body     func()
	Check    func(x *Exec) // oracle, called for every complete execution
	Opt      Options
	MaxExec  int           // cap on executions (0 = none)
	Deadline time.Time     // cap on wall time (zero = none)

	Executions int
	Capped     bool
	MaxPoints  int
	Divergent  int
	stop       bool
	restart    bool
}

func cost(p PointRec, alt int) int {
	if alt == 0 {
		return 0
	}
	if p.CurEnabled {
		return 1
	}
	if alt == p.TickIdx && p.Runnable > 0 {
		return 1
	}
	return 0
}

// Explore runs the DFS. It restarts from scratch while the set of shared variables grows (their
// accesses are scheduling points), so the final pass is complete with respect to the final set.
func (e *Explorer) Explore() {
	for pass := 0; pass < 100; pass++ {
		e.Executions, e.Capped, e.stop, e.restart = 0, false, false, false
		e.explore(nil, 0)
		if !e.restart {
			return
		}
	}
	panic("sched: set of shared variables does not stabilise")
}

func (e *Explorer) explore(prefix []int, used int) {
	if e.stop {
		return
	}
	if (e.MaxExec > 0 && e.Executions >= e.MaxExec) || (!e.Deadline.IsZero() && time.Now().After(e.Deadline)) {
		e.Capped = true
		e.stop = true
		return
	}
	x := Run(prefix, e.Body, e.Opt)
	if x.NewVars {
		// a variable turned out to be shared: its accesses are scheduling points from now on, so the
		// choice vectors recorded so far no longer describe the same executions - start the pass again
		e.restart, e.stop = true, true
		return
	}
	e.Executions++
	if len(x.Points) > e.MaxPoints {
		e.MaxPoints = len(x.Points)
	}
	if x.Verdict == "divergence" {
		e.Divergent++
	}
	e.Check(x)
	for i := len(prefix); i < len(x.Points); i++ {
		p := x.Points[i]
		for alt := 1; alt < p.N; alt++ {
			c := cost(p, alt)
			if used+c > e.Bound {
				continue
			}
			np := make([]int, i+1)
			copy(np, x.Choices[:i])
			np[i] = alt
			e.explore(np, used+c)
			if e.stop {
				return
			}
		}
	}
}

// Replay runs one schedule twice and reports whether both runs observed the same events and verdict.
func Replay(choices []int, body func(), opt Options) (*Exec, bool) {
	// warm-up: accesses to variables that turn out to be shared become scheduling points; run until that set is stable so
	// that both compared runs see the same choice points
	for i := 0; i < 10; i++ {
		if w := Run(choices, body, opt); !w.NewVars {
			break
		}
	}
	a := Run(choices, body, opt)
	b := Run(choices, body, opt)
	same := a.Verdict == b.Verdict && len(a.Events) == len(b.Events) && len(a.Choices) == len(b.Choices)
	if same {
		for i := range a.Events {
			if a.Events[i] != b.Events[i] {
				same = false
			}
		}
	}
	return a, same
}

func (x *Exec) EventsString() []string {
	var l []string
	for _, e := range x.Events {
		l = append(l, fmt.Sprintf("t=%v thread%d %s %s", e.T, e.Who, e.Name, e.Arg))
	}
	return l
}

// Deviations counts the deviations (preemptions and early clock ticks) of this execution's schedule.
func (x *Exec) Deviations() int {
	n := 0
	for i, p := range x.Points {
		if i < len(x.Choices) {
			n += cost(p, x.Choices[i])
		}
	}
	return n
}
