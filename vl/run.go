// Package vl is the common library of the checks: bookkeeping of what was explored,
// violation / known-finding classification, evidence and replay files, parallel drivers.
package vl

import (
	"encoding/json"
	"fmt"
	"io/ioutil"
	"os"
	"path/filepath"
	"runtime/debug"
	"sort"
	"strconv"
	"strings"
	"sync"
	"sync/atomic"
	"time"
)

// Out is where verdict lines go (checks that have to silence the engine's stdout logging replace os.Stdout).
var Out = os.Stdout

// Root is the /verif directory (VERIF_ROOT overrides, used by background snapshots).
func Root() string {
	if r := os.Getenv("VERIF_ROOT"); r != "" {
		return r
	}
	return "/verif"
}

// Finding is one entry of known_findings.json
type Finding struct {
	Property string `json:"property"`
	Key      string `json:"key"`
	Status   string `json:"status"` // open | fixed
	Commit   string `json:"commit,omitempty"`
	What     string `json:"what"`
}

// Violation is one class of failure (first witness kept).
type Violation struct {
	Key      string      `json:"key"`
	What     string      `json:"what"`
	Count    int64       `json:"count"`
	Replay   interface{} `json:"replay"`
	Path     string      `json:"path,omitempty"`
	IsKnown  bool        `json:"known"`
	Observed string      `json:"observed,omitempty"`
}

// Run collects what one check run covered.
type Run struct {
	Prop  string
	Tier  string
	Seed  int
	Level string
	start time.Time

	States      int64
	Transitions int64
	Evals       int64
	Nontrivial  int64

	mu          sync.Mutex
	viol        map[string]*Violation
	samples     []interface{}
	extra       map[string]interface{}
	counters    map[string]*int64
	assumptions []string
	rule        string
	exhaustive  bool
	caps        []string
	known       map[string]Finding
	deadline    time.Time
	sampleCats  map[string]int
}

func NewRun(prop, tier string) *Run {
	seed, _ := strconv.Atoi(os.Getenv("VERIF_SEED"))
	r := &Run{Prop: prop, Tier: tier, Seed: seed, Level: "model_checking", start: time.Now(),
		viol: map[string]*Violation{}, extra: map[string]interface{}{}, counters: map[string]*int64{},
		known: map[string]Finding{}, exhaustive: true}
	current = r
	b, err := ioutil.ReadFile(filepath.Join(Root(), "known_findings.json"))
	if err == nil {
		var fs []Finding
		if err := json.Unmarshal(b, &fs); err != nil {
			fmt.Fprintln(os.Stderr, "known_findings.json unreadable:", err)
			os.Exit(2)
		}
		for _, f := range fs {
			if f.Property == prop && f.Status == "open" {
				r.known[f.Key] = f
			}
		}
	}
	return r
}

// SetDeadline sets an internal time cap; Expired() then reports it and marks the run non-exhaustive.
func (r *Run) SetDeadline(d time.Duration) {
	r.deadline = r.start.Add(d)
	// worker processes are started in waves by their parent: the cap counts from the parent's start, so that the whole
	// run - not every wave - stays within it
	if s := os.Getenv("VERIF_PARENT_START"); s != "" {
		if ns, err := strconv.ParseInt(s, 10, 64); err == nil {
			if pd := time.Unix(0, ns).Add(d); pd.Before(r.deadline) {
				r.deadline = pd
			}
		}
	}
}
func (r *Run) DeadlineTime() time.Time { return r.deadline }
func (r *Run) Expired() bool {
	if r.deadline.IsZero() || time.Now().Before(r.deadline) {
		return false
	}
	r.Cap("internal time cap reached")
	return true
}

func (r *Run) AddStates(n int64)      { atomic.AddInt64(&r.States, n) }
func (r *Run) AddTransitions(n int64) { atomic.AddInt64(&r.Transitions, n) }
func (r *Run) AddEvals(n int64)       { atomic.AddInt64(&r.Evals, n) }
func (r *Run) AddNontrivial(n int64)  { atomic.AddInt64(&r.Nontrivial, n) }

// Counter returns a named counter (for sub-case statistics that show non-vacuity).
func (r *Run) Counter(name string) *int64 {
	r.mu.Lock()
	defer r.mu.Unlock()
	c, ok := r.counters[name]
	if !ok {
		c = new(int64)
		r.counters[name] = c
	}
	return c
}
func (r *Run) Count(name string, n int64) { atomic.AddInt64(r.Counter(name), n) }

func (r *Run) Sample(s interface{}) {
	r.mu.Lock()
	if len(r.samples) < 40 {
		r.samples = append(r.samples, s)
	}
	r.mu.Unlock()
}
// SampleCat keeps at most 3 samples per category so that the evidence shows every family.
func (r *Run) SampleCat(cat string, s interface{}) {
	r.mu.Lock()
	if r.sampleCats == nil {
		r.sampleCats = map[string]int{}
	}
	if r.sampleCats[cat] < 3 && len(r.samples) < 60 {
		r.sampleCats[cat]++
		r.samples = append(r.samples, s)
	}
	r.mu.Unlock()
}
func (r *Run) Set(k string, v interface{}) { r.mu.Lock(); r.extra[k] = v; r.mu.Unlock() }
func (r *Run) Assume(s string)             { r.mu.Lock(); r.assumptions = append(r.assumptions, s); r.mu.Unlock() }
func (r *Run) Rule(s string)               { r.mu.Lock(); r.rule = s; r.mu.Unlock() }
func (r *Run) Cap(s string) {
	r.mu.Lock()
	r.exhaustive = false
	for _, c := range r.caps {
		if c == s {
			r.mu.Unlock()
			return
		}
	}
	r.caps = append(r.caps, s)
	r.mu.Unlock()
}

// Violate records a failure of class key; replay is the artefact that reproduces it.
func (r *Run) Violate(key, what string, replay interface{}) {
	r.mu.Lock()
	defer r.mu.Unlock()
	v, ok := r.viol[key]
	if ok {
		v.Count++
		return
	}
	_, known := r.known[key]
	r.viol[key] = &Violation{Key: key, What: what, Count: 1, Replay: replay, IsKnown: known}
}

// NumViolationClasses returns the number of distinct classes seen so far.
func (r *Run) NumViolationClasses() int { r.mu.Lock(); defer r.mu.Unlock(); return len(r.viol) }

// Finish writes replay artefacts and the evidence file, prints the verdict lines and
// returns the exit code (0 held / only known findings, 1 new violation).
func (r *Run) Finish() int {
	r.mu.Lock()
	defer r.mu.Unlock()
	keys := make([]string, 0, len(r.viol))
	for k := range r.viol {
		keys = append(keys, k)
	}
	sort.Strings(keys)
	newV := 0
	hit := []string{}
	for _, k := range keys {
		v := r.viol[k]
		if v.IsKnown {
			fmt.Fprintf(Out, "KNOWN-FINDING: property=%s %s (%s; %d cases this run)\n", r.Prop, k, r.known[k].What, v.Count)
			hit = append(hit, k)
			continue
		}
		newV++
		dir := filepath.Join(Root(), "replays", r.Prop)
		os.MkdirAll(dir, 0755)
		name := sanitize(k) + ".json"
		path := filepath.Join(dir, name)
		b, _ := json.MarshalIndent(map[string]interface{}{"property": r.Prop, "key": k, "what": v.What, "count": v.Count, "replay": v.Replay}, "", " ")
		ioutil.WriteFile(path, b, 0644)
		v.Path = path
		fmt.Fprintf(Out, "VIOLATION property=%s replay=%s\n", r.Prop, path)
		fmt.Fprintf(Out, "  key=%s cases=%d what=%s\n", k, v.Count, v.What)
	}
	cov := map[string]interface{}{}
	for k, v := range r.extra {
		cov[k] = v
	}
	cnt := map[string]int64{}
	for k, v := range r.counters {
		cnt[k] = atomic.LoadInt64(v)
	}
	if len(cnt) > 0 {
		cov["counters"] = cnt
	}
	st, tr := atomic.LoadInt64(&r.States), atomic.LoadInt64(&r.Transitions)
	cov["states"] = st
	cov["transitions"] = tr
	cov["traces_validated_against_impl"] = tr
	ev := atomic.LoadInt64(&r.Evals)
	if ev == 0 {
		ev = st + tr
	}
	cov["evaluations"] = ev
	nt := atomic.LoadInt64(&r.Nontrivial)
	if nt == 0 {
		nt = st
	}
	cov["distinct_nontrivial"] = nt
	cov["rule"] = r.rule
	if len(r.samples) == 0 {
		r.samples = append(r.samples, "none recorded")
	}
	cov["samples"] = r.samples
	cov["exhaustive"] = r.exhaustive
	if len(r.caps) > 0 {
		cov["caps"] = r.caps
	}
	cov["known_findings_hit"] = hit
	ass := r.assumptions
	if ass == nil {
		ass = []string{}
	}
	evd := map[string]interface{}{
		"property_id": r.Prop, "tier": r.Tier, "seed": r.Seed, "level": r.Level,
		"coverage": cov, "assumptions": ass, "wall_s": time.Since(r.start).Seconds(), "violations": newV,
	}
	b, _ := json.MarshalIndent(evd, "", " ")
	os.MkdirAll(filepath.Join(Root(), "evidence"), 0755)
	if err := ioutil.WriteFile(filepath.Join(Root(), "evidence", r.Prop+".json"), b, 0644); err != nil {
		fmt.Fprintln(os.Stderr, "cannot write evidence:", err)
		return 2
	}
	fmt.Fprintf(Out, "%s %s: states=%d transitions=%d evaluations=%d exhaustive=%v violations=%d known=%d wall=%.1fs\n",
		r.Prop, r.Tier, st, tr, ev, r.exhaustive, newV, len(hit), time.Since(r.start).Seconds())
	if newV > 0 {
		return 1
	}
	return 0
}

func sanitize(s string) string {
	var sb strings.Builder
	for _, c := range s {
		if (c >= 'a' && c <= 'z') || (c >= 'A' && c <= 'Z') || (c >= '0' && c <= '9') || c == '-' || c == '_' || c == '.' {
			sb.WriteRune(c)
		} else {
			sb.WriteByte('_')
		}
	}
	if sb.Len() > 120 {
		return sb.String()[:120]
	}
	return sb.String()
}

var workersOverride int

// SetWorkers overrides the number of goroutine workers (0 = default); returns the previous override.
func SetWorkers(n int) int { old := workersOverride; workersOverride = n; return old }

// Workers returns the number of parallel workers to use.
func Workers() int {
	if workersOverride > 0 {
		return workersOverride
	}
	if s := os.Getenv("VERIF_WORKERS"); s != "" {
		if n, err := strconv.Atoi(s); err == nil && n > 0 {
			return n
		}
	}
	return 16
}

// Parallel runs fn(shard, nshards) on Workers() goroutines and waits.
func Parallel(nshards int, fn func(shard, nshards int)) {
	var wg sync.WaitGroup
	next := int64(-1)
	w := Workers()
	if w > nshards {
		w = nshards
	}
	for i := 0; i < w; i++ {
		wg.Add(1)
		go func() {
			defer wg.Done()
			for {
				s := int(atomic.AddInt64(&next, 1))
				if s >= nshards {
					return
				}
				runShard(fn, s, nshards)
			}
		}()
	}
	wg.Wait()
}

// runShard is the safety net under the checks' own guards: a panic raised inside engine code (the innermost
// non-runtime frame belongs to the repository's internal packages) is a violation of the property under check, not an
// infrastructure error; the rest of that shard is lost, so the run is marked non-exhaustive. Any other panic is a bug
// of the harness and is re-raised.
func runShard(fn func(shard, nshards int), s, n int) {
	defer func() {
		if e := recover(); e != nil {
			st := string(debug.Stack())
			site := panicOrigin(st)
			if current == nil || !strings.Contains(site, "FrankyGo/internal/") {
				panic(e)
			}
			kind := "other"
			msg := fmt.Sprint(e)
			switch {
			case strings.Contains(msg, "index out of range"):
				kind = "index-out-of-range"
			case strings.Contains(msg, "nil pointer"):
				kind = "nil-pointer"
			}
			if i := strings.LastIndex(site, "/"); i >= 0 {
				site = site[i+1:]
			}
			if i := strings.Index(site, "("); i > 0 && strings.HasSuffix(site, ")") && !strings.Contains(site[:i], ".") {
				site = site[:i]
			}
			current.Violate("engine-panic:"+kind+":"+site, "engine code panicked: "+msg, map[string]interface{}{"kind": "panic", "shard": s, "shards": n, "stack": trimLines(st, 24)})
			current.Cap("a shard was abandoned after an engine panic")
		}
	}()
	fn(s, n)
}

// panicOrigin returns the function name of the innermost non-runtime frame below the panic call in a stack dump.
func panicOrigin(st string) string {
	lines := strings.Split(st, "\n")
	seen := false
	for _, l := range lines {
		if strings.HasPrefix(l, "panic(") {
			seen = true
			continue
		}
		if !seen || strings.HasPrefix(l, "\t") || strings.HasPrefix(l, "runtime.") || l == "" {
			continue
		}
		if i := strings.LastIndex(l, "("); i > 0 {
			return l[:i]
		}
		return l
	}
	return ""
}

func trimLines(s string, n int) string {
	lines := strings.Split(s, "\n")
	if len(lines) > n {
		lines = lines[:n]
	}
	return strings.Join(lines, "\n")
}

// current is the run of this process (set by NewRun) - used by the panic safety net of Parallel
var current *Run

// Guard runs f and converts a panic into an error string (with the panic value).
func Guard(f func()) (msg string, panicked bool) {
	defer func() {
		if e := recover(); e != nil {
			msg = fmt.Sprint(e)
			panicked = true
		}
	}()
	f()
	return "", false
}
