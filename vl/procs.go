package vl

import (
	"encoding/json"
	"fmt"
	"io/ioutil"
	"os"
	"os/exec"
	"path/filepath"
	"strconv"
	"strings"
	"sync"
	"sync/atomic"
)

// Process-level sharding: the check binary re-executes itself as N worker processes
// (VERIF_WORKER=i/n). Needed where the code under test has process-global state
// (configuration, the evaluator's scratch score, the cooperative scheduler).

type partial struct {
	States, Transitions, Evals, Nontrivial int64
	Viol                                   map[string]*Violation
	Samples                                []interface{}
	Extra                                  map[string]interface{}
	Counters                               map[string]int64
	Caps                                   []string
	Assumptions                            []string
	Exhaustive                             bool
}

// WorkerShard returns (shard, n, true) in a worker process.
func WorkerShard() (int, int, bool) {
	s := os.Getenv("VERIF_WORKER")
	if s == "" {
		return 0, 1, false
	}
	parts := strings.Split(s, "/")
	i, _ := strconv.Atoi(parts[0])
	n, _ := strconv.Atoi(parts[1])
	return i, n, true
}

// FinishWorker writes the partial result of a worker process.
func (r *Run) FinishWorker() int {
	r.mu.Lock()
	defer r.mu.Unlock()
	p := partial{States: atomic.LoadInt64(&r.States), Transitions: atomic.LoadInt64(&r.Transitions), Evals: atomic.LoadInt64(&r.Evals),
		Nontrivial: atomic.LoadInt64(&r.Nontrivial), Viol: r.viol, Samples: r.samples, Extra: r.extra, Counters: map[string]int64{},
		Caps: r.caps, Assumptions: r.assumptions, Exhaustive: r.exhaustive}
	for k, v := range r.counters {
		p.Counters[k] = atomic.LoadInt64(v)
	}
	b, err := json.Marshal(p)
	if err != nil {
		fmt.Fprintln(os.Stderr, "worker: cannot marshal partial:", err)
		return 2
	}
	if err := ioutil.WriteFile(os.Getenv("VERIF_PART"), b, 0644); err != nil {
		fmt.Fprintln(os.Stderr, "worker: cannot write partial:", err)
		return 2
	}
	return 0
}

func summable(k string) bool {
	for _, w := range []string{"nodes", "count", "runs", "cases", "sequences", "identities", "executions", "schedules", "programs"} {
		if strings.Contains(k, w) {
			return true
		}
	}
	return false
}

func mergeExtra(dst map[string]interface{}, src map[string]interface{}) { mergeExtraIn(dst, src, false) }

func mergeExtraIn(dst map[string]interface{}, src map[string]interface{}, inMap bool) {
	for k, v := range src {
		old, ok := dst[k]
		if !ok {
			dst[k] = v
			continue
		}
		if _, isMap := old.(map[string]interface{}); !isMap && !inMap && !summable(k) {
			continue
		}
		switch ov := old.(type) {
		case float64:
			if nv, ok := v.(float64); ok {
				dst[k] = ov + nv
			}
		case int:
			if nv, ok := v.(float64); ok {
				dst[k] = float64(ov) + nv
			}
		case int64:
			if nv, ok := v.(float64); ok {
				dst[k] = float64(ov) + nv
			}
		case map[string]interface{}:
			if nv, ok := v.(map[string]interface{}); ok {
				mergeExtraIn(ov, nv, true)
			}
		}
	}
}

// RunWorkers spawns n worker processes of this binary (same arguments), at most Workers() at a
// time, merges their partial results into r and returns the exit code of r.Finish().
// A worker that dies (panic, fatal error, out of memory) is an infrastructure error (exit 2) and its
// journal line names the case it was working on.
func (r *Run) RunWorkers(n int, env ...string) int {
	dir := filepath.Join(Root(), ".work", "parts-"+r.Prop)
	os.RemoveAll(dir)
	os.MkdirAll(dir, 0755)
	defer os.RemoveAll(dir)
	sem := make(chan struct{}, Workers())
	var wg sync.WaitGroup
	var failed int32
	var fmu sync.Mutex
	var failMsgs []string
	for i := 0; i < n; i++ {
		wg.Add(1)
		sem <- struct{}{}
		go func(i int) {
			defer wg.Done()
			defer func() { <-sem }()
			part := filepath.Join(dir, fmt.Sprintf("part-%d.json", i))
			cmd := exec.Command(os.Args[0], os.Args[1:]...)
			journal := filepath.Join(dir, fmt.Sprintf("journal-%d.txt", i))
			cmd.Env = append(os.Environ(), fmt.Sprintf("VERIF_WORKER=%d/%d", i, n), "VERIF_PART="+part, "VERIF_JOURNAL="+journal, "GOMAXPROCS=2", fmt.Sprintf("VERIF_PARENT_START=%d", r.start.UnixNano()))
			cmd.Env = append(cmd.Env, env...)
			out, err := cmd.CombinedOutput()
			if err != nil {
				// a crash of the code under test (panic in a goroutine of the engine, fatal error) while a
				// journalled case was running is a verdict about that case, not an infrastructure error
				jb, jerr := ioutil.ReadFile(journal)
				txt := string(out)
				if jerr == nil && len(jb) > 0 && (strings.Contains(txt, "panic:") || strings.Contains(txt, "fatal error:")) && !strings.Contains(txt, "infrastructure error") {
					line := "crash"
					for _, l := range strings.Split(txt, "\n") {
						if strings.HasPrefix(l, "panic:") || strings.HasPrefix(l, "fatal error:") {
							line = l
							break
						}
					}
					if len(line) > 90 {
						line = line[:90]
					}
					var jr interface{}
					if json.Unmarshal(jb, &jr) != nil {
						jr = string(jb)
					}
					r.Violate("process-crash:"+line, "the engine crashed the process: "+line, map[string]interface{}{"kind": "crash", "case": jr, "output_tail": tailOf(txt, 1500)})
					r.Cap(fmt.Sprintf("worker %d crashed; the rest of its shard was not explored", i))
					ioutil.WriteFile(part, []byte("{}"), 0644)
					return
				}
				atomic.AddInt32(&failed, 1)
				fmu.Lock()
				failMsgs = append(failMsgs, fmt.Sprintf("worker %d/%d: %v\n%s", i, n, err, tailOf(txt, 3000)))
				fmu.Unlock()
			}
		}(i)
	}
	wg.Wait()
	if failed > 0 {
		for _, m := range failMsgs {
			fmt.Fprintln(os.Stderr, m)
		}
		fmt.Fprintln(os.Stderr, "infrastructure error: worker process(es) failed")
		return 2
	}
	for i := 0; i < n; i++ {
		b, err := ioutil.ReadFile(filepath.Join(dir, fmt.Sprintf("part-%d.json", i)))
		if err != nil {
			fmt.Fprintln(os.Stderr, "missing partial result of worker", i)
			return 2
		}
		var p partial
		if err := json.Unmarshal(b, &p); err != nil {
			fmt.Fprintln(os.Stderr, "bad partial result:", err)
			return 2
		}
		r.States += p.States
		r.Transitions += p.Transitions
		r.Evals += p.Evals
		r.Nontrivial += p.Nontrivial
		for k, v := range p.Viol {
			if old, ok := r.viol[k]; ok {
				old.Count += v.Count
			} else {
				_, known := r.known[k]
				v.IsKnown = known
				r.viol[k] = v
			}
		}
		for _, s := range p.Samples {
			if len(r.samples) < 40 {
				r.samples = append(r.samples, s)
			}
		}
		mergeExtra(r.extra, p.Extra)
		for k, v := range p.Counters {
			r.Count(k, v)
		}
		for _, c := range p.Caps {
			r.Cap(c)
		}
		if !p.Exhaustive {
			r.exhaustive = false
		}
		if i == 0 {
			r.assumptions = append(r.assumptions, p.Assumptions...)
		}
	}
	r.extra["worker_processes"] = n
	return r.Finish()
}

func tailOf(s string, n int) string {
	if len(s) > n {
		return s[len(s)-n:]
	}
	return s
}

// Journal records the case a worker process is about to run, so that a crash of the process can be
// attributed to it by the parent.
func Journal(v interface{}) {
	p := os.Getenv("VERIF_JOURNAL")
	if p == "" {
		return
	}
	b, _ := json.Marshal(v)
	ioutil.WriteFile(p, b, 0644)
}
