// Package space enumerates the finite position spaces the checks explore completely.
// Every enumerator is deterministic and sharded: shard s of n visits a fixed subset and the
// union over s is the whole family. Nothing is sampled.
package space

import (
	"github.com/frankkopp/FrankyGo/verif/refchess"
)

const (
	P = refchess.Pawn
	N = refchess.Knight
	B = refchess.Bishop
	R = refchess.Rook
	Q = refchess.Queen
	K = refchess.King
)

type Emit func(p *refchess.Pos)

func kingsApart(a, b int) bool {
	df, dr := a%8-b%8, a/8-b/8
	if df < 0 {
		df = -df
	}
	if dr < 0 {
		dr = -dr
	}
	return df > 1 || dr > 1
}

func fresh() *refchess.Pos { return &refchess.Pos{EP: -1, Half: 0, Full: 1} }

func pawnOK(pc int8, sq int) bool {
	if pc == P || pc == -P {
		return sq >= 8 && sq < 56
	}
	return true
}

// emitBothSides emits p with white and black to move if valid, plus ep-decorated variants
// when a pawn stands on its 4th (white) / 5th (black) rank with both squares behind it empty.
func emitBothSides(p *refchess.Pos, emit Emit, withEP bool) {
	for _, w := range []bool{true, false} {
		p.White = w
		p.EP = -1
		if p.Valid() {
			emit(p)
		}
		if !withEP {
			continue
		}
		// ep variants: the side NOT to move has just double pushed
		for s := 24; s < 40; s++ {
			if w && p.B[s] == -P && s >= 32 { // black pawn on rank 5, white to move
				p.EP = s + 8
				if p.Valid() {
					emit(p)
				}
			}
			if !w && p.B[s] == P && s < 32 {
				p.EP = s - 8
				if p.Valid() {
					emit(p)
				}
			}
			p.EP = -1
		}
	}
}

// P3Opt restricts the family.
type P3Opt struct {
	Kinds    []int8 // extra piece kinds (signed); nil = all 10 plus "none"
	NoEmpty  bool   // skip the two-kings-only positions
	Quadrant bool   // extra piece only in a1-d4
}

var allKinds = []int8{P, N, B, R, Q, -P, -N, -B, -R, -Q}

// P3: two kings and at most one further piece, both sides to move, ep variants. Shards = white king square.
func P3(shard, n int, opt P3Opt, emit Emit) {
	kinds := opt.Kinds
	if kinds == nil {
		kinds = allKinds
	}
	for wk := 0; wk < 64; wk++ {
		if wk%n != shard {
			continue
		}
		for bk := 0; bk < 64; bk++ {
			if !kingsApart(wk, bk) {
				continue
			}
			p := fresh()
			p.B[wk], p.B[bk] = K, -K
			if !opt.NoEmpty {
				emitBothSides(p, emit, false)
			}
			for _, k := range kinds {
				for s := 0; s < 64; s++ {
					if s == wk || s == bk || !pawnOK(k, s) {
						continue
					}
					if opt.Quadrant && (s%8 > 3 || s/8 > 3) {
						continue
					}
					p.B[s] = k
					emitBothSides(p, emit, true)
					p.B[s] = 0
				}
			}
		}
	}
}

// PCastle: king and rook(s) on home squares of one colour, every subset of the consistent rights,
// enemy king anywhere, one enemy piece anywhere (or none), an optional own blocker on a back-rank square.
// level 0: blockers {none, N on b,d,f}; level 1: blockers none, N/B on every free back-rank square.
// Shards = enemy king square.
func PCastle(shard, n int, level int, emit Emit) {
	for _, white := range []bool{true, false} {
		sg := int8(1)
		home := 4
		if !white {
			sg = -1
			home = 60
		}
		base := home - 4
		for ek := 0; ek < 64; ek++ {
			if ek%n != shard || !kingsApart(ek, home) {
				continue
			}
			for rooks := 1; rooks <= 3; rooks++ { // bit0 = h-rook, bit1 = a-rook
				for rights := 0; rights <= rooks; rights++ {
					if rights&^rooks != 0 {
						continue
					}
					type blk struct {
						sq int
						pc int8
					}
					blockers := []blk{{-1, 0}}
					for _, f := range []int{1, 2, 3, 5, 6} {
						if level == 0 && !(f == 1 || f == 3 || f == 5) {
							continue
						}
						blockers = append(blockers, blk{base + f, sg * N})
						if level > 0 {
							blockers = append(blockers, blk{base + f, sg * B})
						}
					}
					for _, bl := range blockers {
						p := fresh()
						p.B[home] = sg * K
						if rooks&1 != 0 {
							p.B[base+7] = sg * R
						}
						if rooks&2 != 0 {
							p.B[base] = sg * R
						}
						if p.B[ek] != 0 {
							continue
						}
						p.B[ek] = -sg * K
						if bl.sq >= 0 {
							if p.B[bl.sq] != 0 {
								continue
							}
							p.B[bl.sq] = bl.pc
						}
						ci := 0
						if !white {
							ci = 2
						}
						p.Cast[ci] = rights&1 != 0
						p.Cast[ci+1] = rights&2 != 0
						emitBothSides(p, emit, false)
						for _, ek2 := range []int8{Q, R, B, N, P} {
							for s := 0; s < 64; s++ {
								if p.B[s] != 0 || !pawnOK(ek2, s) {
									continue
								}
								p.B[s] = -sg * ek2
								emitBothSides(p, emit, false)
								p.B[s] = 0
							}
						}
					}
				}
			}
		}
	}
}

// PEP: capturer pawn beside a just double-pushed enemy pawn (all 14 ordered file pairs), ep set,
// both kings anywhere, one further enemy piece anywhere (kinds), optionally a second capturer on the other side.
// Shards = capturing side's king square.
func PEP(shard, n int, kinds []int8, second bool, emit Emit) { pep(shard, n, kinds, second, false, emit) }

// PEPOwn: as PEP but the extra piece belongs to the capturing side (discovered checks by the capture).
func PEPOwn(shard, n int, kinds []int8, emit Emit) { pep(shard, n, kinds, false, true, emit) }

func pep(shard, n int, kinds []int8, second bool, own bool, emit Emit) {
	for _, white := range []bool{true, false} { // white = capturer colour
		sg := int8(1)
		r := 4 // capturer rank index (5th rank)
		epr := 5
		orig := 6
		if !white {
			sg = -1
			r = 3
			epr = 2
			orig = 1
		}
		for pf := 0; pf < 8; pf++ { // pushed pawn file
			for _, d := range []int{-1, 1} {
				cf := pf + d
				if cf < 0 || cf > 7 {
					continue
				}
				for ok := 0; ok < 64; ok++ {
					if ok%n != shard {
						continue
					}
					for ek := 0; ek < 64; ek++ {
						if !kingsApart(ok, ek) {
							continue
						}
						p := fresh()
						p.White = white
						p.B[r*8+pf] = -sg * P
						p.B[r*8+cf] = sg * P
						p.EP = epr*8 + pf
						if p.B[ok] != 0 || p.B[ek] != 0 || ok == p.EP || ek == p.EP || ok == orig*8+pf || ek == orig*8+pf {
							continue
						}
						p.B[ok] = sg * K
						p.B[ek] = -sg * K
						variants := []int{-1}
						if second && pf-d >= 0 && pf-d <= 7 {
							variants = append(variants, r*8+pf-d)
						}
						for _, v := range variants {
							if v >= 0 {
								if p.B[v] != 0 {
									continue
								}
								p.B[v] = sg * P
							}
							if p.Valid() {
								emit(p)
							}
							for _, k := range kinds {
								for s := 0; s < 64; s++ {
									if p.B[s] != 0 || s == p.EP || s == orig*8+pf {
										continue
									}
									p.B[s] = -sg * k
									if own {
										p.B[s] = sg * k
									}
									if p.Valid() {
										emit(p)
									}
									p.B[s] = 0
								}
							}
							if v >= 0 {
								p.B[v] = 0
							}
						}
					}
				}
			}
		}
	}
}

// PPromo: a pawn on its 7th rank (all files), at most one enemy piece {Q,R,B,N} on the push / capture
// squares, kings anywhere, both sides to move, both colours. Shards = own king square.
func PPromo(shard, n int, emit Emit) { PPromoFiles(shard, n, 8, emit) }

// PPromoFiles: as PPromo with the pawn on files a..(a+files-1) only.
func PPromoFiles(shard, n int, files int, emit Emit) { ppromo(shard, n, files, false, emit) }

// PPromoOwn: as PPromoFiles, but the piece on the push / capture squares belongs to the pawn's side (a blocked
// promotion square, "captures" of own pieces); the bare positions are not emitted again.
func PPromoOwn(shard, n int, files int, emit Emit) { ppromo(shard, n, files, true, emit) }

func ppromo(shard, n int, files int, own bool, emit Emit) {
	for _, white := range []bool{true, false} {
		sg := int8(1)
		r7, r8 := 6, 7
		if !white {
			sg = -1
			r7, r8 = 1, 0
		}
		for f := 0; f < files; f++ {
			for ok := 0; ok < 64; ok++ {
				if ok%n != shard {
					continue
				}
				for ek := 0; ek < 64; ek++ {
					if !kingsApart(ok, ek) {
						continue
					}
					p := fresh()
					p.B[r7*8+f] = sg * P
					if p.B[ok] != 0 || p.B[ek] != 0 {
						continue
					}
					p.B[ok], p.B[ek] = sg*K, -sg*K
					if !own {
						emitBothSides(p, emit, false)
					}
					for _, df := range []int{-1, 0, 1} {
						if f+df < 0 || f+df > 7 {
							continue
						}
						s := r8*8 + f + df
						if p.B[s] != 0 {
							continue
						}
						for _, k := range []int8{Q, R, B, N} {
							p.B[s] = -sg * k
							if own {
								p.B[s] = sg * k
							}
							emitBothSides(p, emit, false)
						}
						p.B[s] = 0
					}
				}
			}
		}
	}
}

// PDisc: own king on one of a few squares, enemy king anywhere, own slider {R,B,Q} anywhere and a second own
// piece {N,B,R,P} anywhere; owner to move (discovered and double checks). Shards = enemy king square.
func PDisc(shard, n int, emit Emit) {
	for _, white := range []bool{true, false} {
		sg := int8(1)
		if !white {
			sg = -1
		}
		for _, ok := range []int{0, 4, 27, 60} {
			for ek := 0; ek < 64; ek++ {
				if ek%n != shard || !kingsApart(ok, ek) {
					continue
				}
				for _, sl := range []int8{R, B, Q} {
					for ss := 0; ss < 64; ss++ {
						if ss == ok || ss == ek {
							continue
						}
						for _, fr := range []int8{N, B, R, P} {
							for fs := 0; fs < 64; fs++ {
								if fs == ok || fs == ek || fs == ss || !pawnOK(fr, fs) {
									continue
								}
								p := fresh()
								p.B[ok], p.B[ek], p.B[ss], p.B[fs] = sg*K, -sg*K, sg*sl, sg*fr
								p.White = white
								if p.Valid() {
									emit(p)
								}
							}
						}
					}
				}
			}
		}
	}
}

// Seeds are the start FENs for game-tree closure. Mirrors are added by AllSeeds.
var Seeds = []string{
	"rnbqkbnr/pppppppp/8/8/8/8/PPPPPPPP/RNBQKBNR w KQkq - 0 1",
	"r3k2r/p1ppqpb1/bn2pnp1/3PN3/1p2P3/2N2Q1p/PPPBBPPP/R3K2R w KQkq - 0 1",
	"8/2p5/3p4/KP5r/1R3p1k/8/4P1P1/8 w - - 0 1",
	"r3k2r/Pppp1ppp/1b3nbN/nP6/BBP1P3/q4N2/Pp1P2PP/R2Q1RK1 w kq - 0 1",
	"rnbq1k1r/pp1Pbppp/2p5/8/2B5/8/PPP1NnPP/RNBQK2R w KQ - 1 8",
	"r4rk1/1pp1qppp/p1np1n2/2b1p1B1/2B1P1b1/P1NP1N2/1PP1QPPP/R4RK1 w - - 0 10",
	// promotion heavy
	"n1n5/PPPk4/8/8/8/8/4Kppp/5N1N b - - 0 1",
	"rnbqkbn1/pppppppP/8/8/8/8/PPPPPPP1/RNBQKBNR w KQq - 0 5",
	"r3k2r/1P4P1/8/8/8/8/1p4p1/R3K2R w KQkq - 0 1",
	// ep heavy
	"8/8/8/1k1pP3/8/8/8/4K2R w K d6 0 2",
	"rnbqkbnr/ppp1p1pp/8/3pPp2/8/8/PPPP1PPP/RNBQKBNR w KQkq f6 0 3",
	"8/8/3k4/8/2pPp3/8/8/4K2Q b - d3 0 1",
	"8/6bb/8/8/R1pP2k1/4P3/P7/K7 b - d3 0 1",
	"k7/8/8/K1pP3r/8/8/8/8 w - c6 0 2",
	// castling heavy
	"r3k2r/8/8/8/8/8/8/R3K2R w KQkq - 0 1",
	"r3k2r/8/8/8/8/8/8/R3K2R b KQkq - 0 1",
	"r3k2r/p6p/8/B7/1b6/8/P6P/R3K2R w KQkq - 3 12",
	"1r2k2r/8/8/8/8/8/8/R3K1R1 w Qk - 0 1",
	"4k2r/6P1/8/8/8/8/1p6/R3K3 w Qk - 0 1",
	// checks
	"4k3/8/8/8/7q/8/3PP3/3QKB2 w - - 0 1",
	"8/8/8/2k5/4Pp2/8/8/1K4B1 b - e3 0 1",
	"r1bqkb1r/pppp1Qpp/2n2n2/4p3/2B1P3/8/PPPP1PPP/RNB1K1NR b KQkq - 0 4",
	"3rk3/8/8/8/3R4/8/3K4/8 w - - 0 1",
	"R6k/8/5NK1/8/8/8/8/8 b - - 5 60",
	// misc middlegames
	"r1bq1rk1/pp2ppbp/2np1np1/8/3NP3/2N1BP2/PPPQ2PP/R3KB1R w KQ - 3 9",
	"2rq1rk1/pb1n1ppN/4p3/1pb5/3P1Pn1/P1N5/1PQ1B1PP/R1B2RK1 b - - 0 16",
	"6k1/5ppp/8/8/8/8/5PPP/3R2K1 w - - 0 1",
	"8/k7/3p4/p2P1p2/P2P1P2/8/8/K7 w - - 0 1",
}

func AllSeeds() []string {
	seen := map[string]bool{}
	var res []string
	for _, s := range Seeds {
		p := refchess.MustFEN(s)
		for _, q := range []*refchess.Pos{p, p.Mirror()} {
			f := q.FEN()
			if !seen[f] {
				seen[f] = true
				res = append(res, f)
			}
		}
	}
	return res
}

// PPromo2: a pawn on its 7th rank, own king on one of the given squares (nil = corners and their
// neighbours), an enemy queen or rook anywhere and the enemy king anywhere; both colours, owner to move
// (positions in which a promotion push is the only legal move live here). Shards = enemy king square.
func PPromo2(shard, n int, ownKings []int, emit Emit) {
	if ownKings == nil {
		ownKings = []int{0, 1, 8, 9, 7, 6, 15, 14, 56, 57, 48, 49, 63, 62, 55, 54}
	}
	for _, white := range []bool{true, false} {
		sg := int8(1)
		r7 := 6
		if !white {
			sg = -1
			r7 = 1
		}
		for ek := 0; ek < 64; ek++ {
			if ek%n != shard {
				continue
			}
			for _, ok := range ownKings {
				if !kingsApart(ok, ek) {
					continue
				}
				for f := 0; f < 8; f++ {
					ps := r7*8 + f
					if ps == ok || ps == ek {
						continue
					}
					for _, k := range []int8{Q, R} {
						for s := 0; s < 64; s++ {
							if s == ok || s == ek || s == ps {
								continue
							}
							p := fresh()
							p.White = white
							p.B[ok], p.B[ek], p.B[ps], p.B[s] = sg*K, -sg*K, sg*P, -sg*k
							if p.Valid() {
								emit(p)
							}
						}
					}
				}
			}
		}
	}
}

// blockTemplates: cornered king with own pieces that cannot move; '?' is replaced by each officer kind
// of the side to move; the enemy king goes on every free square. Mirrored in colour and left-right.
var blockTemplates = []string{
	"6?k/5p1p/5P1P/8/8/8/8/8 b",
	"5?1k/5p1p/5P1P/8/8/8/8/8 b",
	"7k/5p?p/5P1P/8/8/8/8/8 b",
	"6k1/5p?p/5P1P/7P/8/8/8/8 b",
	"?k6/pp6/PP6/8/8/8/8/8 b",
	"k?6/p1p5/P1P5/8/8/8/8/8 b",
}

// PBlock: see blockTemplates. Shards = template index.
func PBlock(shard, n int, emit Emit) {
	for ti, t := range blockTemplates {
		if ti%n != shard {
			continue
		}
		for _, k := range []byte{'n', 'b', 'r', 'q'} {
			fen := ""
			for i := 0; i < len(t); i++ {
				if t[i] == '?' {
					fen += string(k)
				} else {
					fen += string(t[i])
				}
			}
			base := refchess.MustFEN(fen + " - - 0 1")
			for wk := 0; wk < 64; wk++ {
				if base.B[wk] != 0 {
					continue
				}
				p := base.Clone()
				p.B[wk] = K
				for _, q := range []*refchess.Pos{p, p.Mirror(), flipLR(p), flipLR(p.Mirror())} {
					if q.Valid() {
						emit(q)
					}
				}
			}
		}
	}
}

func flipLR(p *refchess.Pos) *refchess.Pos {
	q := p.Clone()
	for s := 0; s < 64; s++ {
		q.B[s] = p.B[s/8*8+7-s%8]
	}
	return q
}

// EpEvasionRoots: positions one ply before a pawn's double step gives check and can be answered by capturing that
// pawn en passant: the pusher's pawn on its initial rank, the checked king diagonally in front of the pawn's target
// square, a capturer beside the target square, the pusher's king anywhere, one further piece of the pusher {B,R,N,Q}
// (or none) anywhere; kept when, after the double step, the side in check has at most maxReplies legal replies and an
// en passant capture is one of them. Both colours. The pusher is to move. Returned as FENs (few hundred positions).
func EpEvasionRoots(kinds []int8, maxReplies int) []string {
	var res []string
	seen := map[string]bool{}
	for _, white := range []bool{true, false} { // white = pusher colour
		sg := int8(1)
		r2, r4 := 1, 3
		if !white {
			sg = -1
			r2, r4 = 6, 4
		}
		dir := 1
		if !white {
			dir = -1
		}
		for f := 0; f < 8; f++ {
			for _, cf := range []int{f - 1, f + 1} { // capturer file
				if cf < 0 || cf > 7 {
					continue
				}
				for _, kf := range []int{f - 1, f + 1} { // checked king diagonally in front of the pushed pawn
					if kf < 0 || kf > 7 {
						continue
					}
					ck := (r4+dir)*8 + kf
					for pk := 0; pk < 64; pk++ { // pusher's king
						if !kingsApart(pk, ck) {
							continue
						}
						extras := [][2]int{{0, -1}}
						for _, k := range kinds {
							for s := 0; s < 64; s++ {
								extras = append(extras, [2]int{int(k), s})
							}
						}
						for _, ex := range extras {
							p := fresh()
							p.White = white
							p.B[r2*8+f] = sg * P
							p.B[r4*8+cf] = -sg * P
							if p.B[ck] != 0 || p.B[pk] != 0 {
								continue
							}
							p.B[ck], p.B[pk] = -sg*K, sg*K
							if ex[1] >= 0 {
								if p.B[ex[1]] != 0 || ex[1] == (r2+dir)*8+f || ex[1] == r4*8+f {
									continue
								}
								p.B[ex[1]] = sg * int8(ex[0])
							}
							if !p.Valid() {
								continue
							}
							push, ok := p.FindUci(refchess.SqName(r2*8+f) + refchess.SqName(r4*8+f))
							if !ok {
								continue
							}
							q := p.Make(push)
							if !q.InCheck(q.White) {
								continue
							}
							replies := q.LegalMoves()
							if len(replies) == 0 || len(replies) > maxReplies {
								continue
							}
							hasEp := false
							for _, m := range replies {
								if m.Kind == refchess.EnPassant {
									hasEp = true
								}
							}
							if hasEp && !seen[p.FEN()] {
								seen[p.FEN()] = true
								res = append(res, p.FEN())
							}
						}
					}
				}
			}
		}
	}
	return res
}
