// Package eng adapts between the engine's types and refchess.
package eng

import (
	"io/ioutil"
	"log"
	"sort"

	"github.com/frankkopp/FrankyGo/internal/config"
	"github.com/frankkopp/FrankyGo/internal/moveslice"
	"github.com/frankkopp/FrankyGo/internal/position"
	. "github.com/frankkopp/FrankyGo/internal/types"

	"github.com/frankkopp/FrankyGo/verif/refchess"
)

// Quiet silences the engine's logging. Call before any engine object is created.
func Quiet() {
	config.LogLevel = -1
	config.SearchLogLevel = -1
	config.TestLogLevel = -1
	config.Settings.Log.LogLvl = "off"
	config.Settings.Log.SearchLogLvl = "off"
	config.Settings.Log.LogPath = "/nonexistent-verif-logs"
	log.SetOutput(ioutil.Discard)
}

var refPt = [7]int8{0, refchess.King, refchess.Pawn, refchess.Knight, refchess.Bishop, refchess.Rook, refchess.Queen}
var engPt = [7]PieceType{PtNone, Pawn, Knight, Bishop, Rook, Queen, King}

// RefPiece converts an engine piece to the refchess code.
func RefPiece(pc Piece) int8 {
	if pc == PieceNone {
		return 0
	}
	v := refPt[pc.TypeOf()]
	if pc.ColorOf() == Black {
		return -v
	}
	return v
}

// T is a comparable move tuple.
type T struct {
	From, To, Kind int
	Promo        int8
}

func TupleOfRef(m refchess.Move) T { return T{m.From, m.To, m.Kind, m.Promo} }

func TupleOfEng(m Move) T {
	t := T{From: int(m.From()), To: int(m.To())}
	switch m.MoveType() {
	case Normal:
		t.Kind = refchess.Normal
	case Promotion:
		t.Kind = refchess.Promotion
		t.Promo = refPt[m.PromotionType()]
	case EnPassant:
		t.Kind = refchess.EnPassant
	case Castling:
		t.Kind = refchess.Castling
	}
	return t
}

// EngMove builds the engine move for a refchess move.
func EngMove(m refchess.Move) Move {
	switch m.Kind {
	case refchess.Promotion:
		return CreateMove(Square(m.From), Square(m.To), Promotion, engPt[m.Promo])
	case refchess.EnPassant:
		return CreateMove(Square(m.From), Square(m.To), EnPassant, PtNone)
	case refchess.Castling:
		return CreateMove(Square(m.From), Square(m.To), Castling, PtNone)
	}
	return CreateMove(Square(m.From), Square(m.To), Normal, PtNone)
}

func RefMove(m Move) refchess.Move {
	t := TupleOfEng(m)
	return refchess.Move{From: t.From, To: t.To, Kind: t.Kind, Promo: t.Promo}
}

func less(a, b T) bool {
	if a.From != b.From {
		return a.From < b.From
	}
	if a.To != b.To {
		return a.To < b.To
	}
	if a.Kind != b.Kind {
		return a.Kind < b.Kind
	}
	return a.Promo < b.Promo
}

func SortT(ts []T) { sort.Slice(ts, func(i, j int) bool { return less(ts[i], ts[j]) }) }

func TuplesOfRef(ms []refchess.Move) []T {
	ts := make([]T, len(ms))
	for i, m := range ms {
		ts[i] = TupleOfRef(m)
	}
	SortT(ts)
	return ts
}

func TuplesOfSlice(ms *moveslice.MoveSlice) []T {
	ts := make([]T, 0, ms.Len())
	for _, m := range *ms {
		ts = append(ts, TupleOfEng(m))
	}
	SortT(ts)
	return ts
}

func TuplesOfMoves(ms []Move) []T {
	ts := make([]T, 0, len(ms))
	for _, m := range ms {
		ts = append(ts, TupleOfEng(m))
	}
	SortT(ts)
	return ts
}

func EqualT(a, b []T) bool {
	if len(a) != len(b) {
		return false
	}
	for i := range a {
		if a[i] != b[i] {
			return false
		}
	}
	return true
}

func HasDup(a []T) bool {
	for i := 1; i < len(a); i++ {
		if a[i] == a[i-1] {
			return true
		}
	}
	return false
}

func StrT(ts []T) string {
	s := ""
	for i, t := range ts {
		if i > 0 {
			s += " "
		}
		s += refchess.Move{From: t.From, To: t.To, Kind: t.Kind, Promo: t.Promo}.String()
		if t.Kind == refchess.EnPassant {
			s += "ep"
		} else if t.Kind == refchess.Castling {
			s += "c"
		}
	}
	return s
}

// RefOfEngine builds a refchess position by reading the engine position through its accessors.
func RefOfEngine(p *position.Position) *refchess.Pos {
	q := &refchess.Pos{EP: -1}
	for s := 0; s < 64; s++ {
		q.B[s] = RefPiece(p.GetPiece(Square(s)))
	}
	q.White = p.NextPlayer() == White
	cr := p.CastlingRights()
	q.Cast = [4]bool{cr.Has(CastlingWhiteOO), cr.Has(CastlingWhiteOOO), cr.Has(CastlingBlackOO), cr.Has(CastlingBlackOOO)}
	if ep := p.GetEnPassantSquare(); ep != SqNone {
		q.EP = int(ep)
	}
	q.Half = p.HalfMoveClock()
	return q
}
