package refchess

import "testing"

var PerftTable = []struct {
	Fen   string
	Nodes []uint64
}{
	{"rnbqkbnr/pppppppp/8/8/8/8/PPPPPPPP/RNBQKBNR w KQkq - 0 1", []uint64{20, 400, 8902, 197281}},
	{"r3k2r/p1ppqpb1/bn2pnp1/3PN3/1p2P3/2N2Q1p/PPPBBPPP/R3K2R w KQkq - 0 1", []uint64{48, 2039, 97862}},
	{"8/2p5/3p4/KP5r/1R3p1k/8/4P1P1/8 w - - 0 1", []uint64{14, 191, 2812, 43238}},
	{"r3k2r/Pppp1ppp/1b3nbN/nP6/BBP1P3/q4N2/Pp1P2PP/R2Q1RK1 w kq - 0 1", []uint64{6, 264, 9467}},
	{"rnbq1k1r/pp1Pbppp/2p5/8/2B5/8/PPP1NnPP/RNBQK2R w KQ - 1 8", []uint64{44, 1486, 62379}},
	{"r4rk1/1pp1qppp/p1np1n2/2b1p1B1/2B1P1b1/P1NP1N2/1PP1QPPP/R4RK1 w - - 0 10", []uint64{46, 2079, 89890}},
}

func TestPerft(t *testing.T) {
	for _, c := range PerftTable {
		p := MustFEN(c.Fen)
		for d, want := range c.Nodes {
			if got := p.Perft(d+1, nil); got != want {
				t.Errorf("%s depth %d: got %d want %d", c.Fen, d+1, got, want)
			}
		}
	}
}

func TestSan(t *testing.T) {
	p := MustFEN("r3k2r/p1ppqpb1/bn2pnp1/3PN3/1p2P3/2N2Q1p/PPPBBPPP/R3K2R w KQkq - 0 1")
	for _, m := range p.LegalMoves() {
		_ = p.SAN(m)
	}
	if p.FEN() != "r3k2r/p1ppqpb1/bn2pnp1/3PN3/1p2P3/2N2Q1p/PPPBBPPP/R3K2R w KQkq - 0 1" {
		t.Error(p.FEN())
	}
}
