// Package refchess is a deliberately boring, independent implementation of the
// rules of chess used as the reference model ("oracle") for the checks.
// 8x8 mailbox, ray stepping square by square, legality by make-and-scan.
// It shares no code, tables or types with the engine under test.
package refchess

import (
	"errors"
	"fmt"
	"sort"
	"strconv"
	"strings"
)

// piece codes: 0 empty, 1..6 white P N B R Q K, -1..-6 black
const (
	Empty  = 0
	Pawn   = 1
	Knight = 2
	Bishop = 3
	Rook   = 4
	Queen  = 5
	King   = 6
)

// move kinds
const (
	Normal    = 0
	Promotion = 1
	EnPassant = 2
	Castling  = 3
)

// Pos is a chess position. Squares a1=0, b1=1 ... h8=63.
type Pos struct {
	B     [64]int8
	White bool    // white to move
	Cast  [4]bool // K Q k q
	EP    int     // en passant target square or -1
	Half  int
	Full  int
}

// Move is a move in coordinates.
type Move struct {
	From, To int
	Kind     int
	Promo    int8 // Knight..Queen for promotions else 0
}

func (m Move) String() string {
	s := SqName(m.From) + SqName(m.To)
	if m.Kind == Promotion {
		s += string("  nbrq"[m.Promo])
	}
	return s
}

// UciUpper returns the move the way the engine prints it (promotion letter upper case).
func (m Move) UciUpper() string {
	s := SqName(m.From) + SqName(m.To)
	if m.Kind == Promotion {
		s += string("  NBRQ"[m.Promo])
	}
	return s
}

func SqName(s int) string {
	if s < 0 || s > 63 {
		return "-"
	}
	return string([]byte{byte('a' + s%8), byte('1' + s/8)})
}

func file(s int) int { return s % 8 }
func rank(s int) int { return s / 8 }
func abs(x int) int {
	if x < 0 {
		return -x
	}
	return x
}
func sign(p int8) int {
	if p > 0 {
		return 1
	}
	if p < 0 {
		return -1
	}
	return 0
}
func pt(p int8) int8 {
	if p < 0 {
		return -p
	}
	return p
}

const pieceChars = ".PNBRQK"

func pieceChar(p int8) byte {
	c := pieceChars[pt(p)]
	if p < 0 {
		c = c - 'A' + 'a'
	}
	return c
}

// ParseFEN is a strict FEN reader (6 fields; fields 5 and 6 optional).
func ParseFEN(fen string) (*Pos, error) {
	f := strings.Fields(fen)
	if len(f) < 4 {
		return nil, errors.New("fen: need at least 4 fields")
	}
	p := &Pos{EP: -1, Half: 0, Full: 1}
	rows := strings.Split(f[0], "/")
	if len(rows) != 8 {
		return nil, errors.New("fen: need 8 ranks")
	}
	for i, row := range rows {
		r := 7 - i
		c := 0
		for _, ch := range row {
			if ch >= '1' && ch <= '8' {
				c += int(ch - '0')
				continue
			}
			idx := strings.IndexRune("PNBRQK", ch)
			col := int8(1)
			if idx < 0 {
				idx = strings.IndexRune("pnbrqk", ch)
				col = -1
			}
			if idx < 0 || c > 7 {
				return nil, errors.New("fen: bad placement")
			}
			p.B[r*8+c] = col * int8(idx+1)
			c++
		}
		if c != 8 {
			return nil, errors.New("fen: bad rank length")
		}
	}
	switch f[1] {
	case "w":
		p.White = true
	case "b":
		p.White = false
	default:
		return nil, errors.New("fen: bad side")
	}
	if f[2] != "-" {
		for _, ch := range f[2] {
			i := strings.IndexRune("KQkq", ch)
			if i < 0 {
				return nil, errors.New("fen: bad castling")
			}
			p.Cast[i] = true
		}
	}
	if f[3] != "-" {
		if len(f[3]) != 2 || f[3][0] < 'a' || f[3][0] > 'h' || f[3][1] < '1' || f[3][1] > '8' {
			return nil, errors.New("fen: bad ep")
		}
		p.EP = int(f[3][1]-'1')*8 + int(f[3][0]-'a')
	}
	if len(f) > 4 {
		n, err := strconv.Atoi(f[4])
		if err != nil {
			return nil, err
		}
		p.Half = n
	}
	if len(f) > 5 {
		n, err := strconv.Atoi(f[5])
		if err != nil {
			return nil, err
		}
		p.Full = n
	}
	return p, nil
}

func MustFEN(fen string) *Pos {
	p, err := ParseFEN(fen)
	if err != nil {
		panic(fmt.Sprintf("refchess: bad fen %q: %v", fen, err))
	}
	return p
}

func (p *Pos) placement() string {
	var sb strings.Builder
	for r := 7; r >= 0; r-- {
		e := 0
		for c := 0; c < 8; c++ {
			pc := p.B[r*8+c]
			if pc == 0 {
				e++
				continue
			}
			if e > 0 {
				sb.WriteByte(byte('0' + e))
				e = 0
			}
			sb.WriteByte(pieceChar(pc))
		}
		if e > 0 {
			sb.WriteByte(byte('0' + e))
		}
		if r > 0 {
			sb.WriteByte('/')
		}
	}
	return sb.String()
}

func (p *Pos) castStr() string {
	s := ""
	for i, c := range "KQkq" {
		if p.Cast[i] {
			s += string(c)
		}
	}
	if s == "" {
		s = "-"
	}
	return s
}

func (p *Pos) sideStr() string {
	if p.White {
		return "w"
	}
	return "b"
}

// Identity is placement, side, castling rights and ep field.
func (p *Pos) Identity() string {
	return p.placement() + " " + p.sideStr() + " " + p.castStr() + " " + SqName(p.EP)
}

// FEN is the full six-field FEN.
func (p *Pos) FEN() string {
	return p.Identity() + " " + strconv.Itoa(p.Half) + " " + strconv.Itoa(p.Full)
}

func (p *Pos) Clone() *Pos { q := *p; return &q }

var knightD = [8][2]int{{1, 2}, {2, 1}, {2, -1}, {1, -2}, {-1, -2}, {-2, -1}, {-2, 1}, {-1, 2}}
var kingD = [8][2]int{{1, 0}, {1, 1}, {0, 1}, {-1, 1}, {-1, 0}, {-1, -1}, {0, -1}, {1, -1}}
var rookD = [4][2]int{{1, 0}, {0, 1}, {-1, 0}, {0, -1}}
var bishopD = [4][2]int{{1, 1}, {-1, 1}, {-1, -1}, {1, -1}}

func on(f, r int) bool { return f >= 0 && f < 8 && r >= 0 && r < 8 }

// Attackers returns the squares of all pieces of the given colour that attack sq
// (pure geometry on the current board: pawns diagonally forward, no en passant).
func (p *Pos) Attackers(sq int, byWhite bool) []int {
	var res []int
	col := int8(1)
	if !byWhite {
		col = -1
	}
	f0, r0 := file(sq), rank(sq)
	// pawns: a white pawn on (f±1, r-1) attacks (f,r)
	pr := r0 - 1
	if !byWhite {
		pr = r0 + 1
	}
	for _, df := range []int{-1, 1} {
		if on(f0+df, pr) && p.B[pr*8+f0+df] == col*Pawn {
			res = append(res, pr*8+f0+df)
		}
	}
	for _, d := range knightD {
		if on(f0+d[0], r0+d[1]) && p.B[(r0+d[1])*8+f0+d[0]] == col*Knight {
			res = append(res, (r0+d[1])*8+f0+d[0])
		}
	}
	for _, d := range kingD {
		if on(f0+d[0], r0+d[1]) && p.B[(r0+d[1])*8+f0+d[0]] == col*King {
			res = append(res, (r0+d[1])*8+f0+d[0])
		}
	}
	for _, d := range rookD {
		f, r := f0+d[0], r0+d[1]
		for on(f, r) {
			pc := p.B[r*8+f]
			if pc != 0 {
				if pc == col*Rook || pc == col*Queen {
					res = append(res, r*8+f)
				}
				break
			}
			f, r = f+d[0], r+d[1]
		}
	}
	for _, d := range bishopD {
		f, r := f0+d[0], r0+d[1]
		for on(f, r) {
			pc := p.B[r*8+f]
			if pc != 0 {
				if pc == col*Bishop || pc == col*Queen {
					res = append(res, r*8+f)
				}
				break
			}
			f, r = f+d[0], r+d[1]
		}
	}
	sort.Ints(res)
	return res
}

func (p *Pos) Attacked(sq int, byWhite bool) bool { return len(p.Attackers(sq, byWhite)) > 0 }

// KingSq returns the square of the king of the colour or -1.
func (p *Pos) KingSq(white bool) int {
	k := int8(King)
	if !white {
		k = -King
	}
	for s := 0; s < 64; s++ {
		if p.B[s] == k {
			return s
		}
	}
	return -1
}

// InCheck: is the king of the given colour attacked.
func (p *Pos) InCheck(white bool) bool {
	k := p.KingSq(white)
	if k < 0 {
		return false
	}
	return p.Attacked(k, !white)
}

// PseudoMoves generates all pseudo-legal moves (castling requires rights, king and rook
// on home squares and empty squares in between; attack conditions are NOT tested here).
func (p *Pos) PseudoMoves() []Move {
	var ms []Move
	col := int8(1)
	if !p.White {
		col = -1
	}
	for s := 0; s < 64; s++ {
		pc := p.B[s]
		if pc == 0 || sign(pc) != int(col) {
			continue
		}
		f0, r0 := file(s), rank(s)
		switch pt(pc) {
		case Pawn:
			dir := 1
			start, last := 1, 6
			if col < 0 {
				dir, start, last = -1, 6, 1
			}
			addP := func(to int, kind int) {
				if r0 == last && kind == Normal {
					for _, pr := range []int8{Queen, Rook, Bishop, Knight} {
						ms = append(ms, Move{s, to, Promotion, pr})
					}
				} else {
					ms = append(ms, Move{s, to, kind, 0})
				}
			}
			r1 := r0 + dir
			if on(f0, r1) && p.B[r1*8+f0] == 0 {
				addP(r1*8+f0, Normal)
				if r0 == start && p.B[(r1+dir)*8+f0] == 0 {
					ms = append(ms, Move{s, (r1+dir)*8 + f0, Normal, 0})
				}
			}
			for _, df := range []int{-1, 1} {
				if !on(f0+df, r1) {
					continue
				}
				to := r1*8 + f0 + df
				if p.B[to] != 0 && sign(p.B[to]) == -int(col) {
					addP(to, Normal)
				} else if p.B[to] == 0 && to == p.EP {
					// en passant: target empty, enemy pawn beside us on our rank
					if p.B[r0*8+f0+df] == -col*Pawn {
						ms = append(ms, Move{s, to, EnPassant, 0})
					}
				}
			}
		case Knight:
			for _, d := range knightD {
				if on(f0+d[0], r0+d[1]) {
					to := (r0+d[1])*8 + f0 + d[0]
					if sign(p.B[to]) != int(col) {
						ms = append(ms, Move{s, to, Normal, 0})
					}
				}
			}
		case King:
			for _, d := range kingD {
				if on(f0+d[0], r0+d[1]) {
					to := (r0+d[1])*8 + f0 + d[0]
					if sign(p.B[to]) != int(col) {
						ms = append(ms, Move{s, to, Normal, 0})
					}
				}
			}
			// castling
			home := 4
			ci := 0
			if col < 0 {
				home = 60
				ci = 2
			}
			if s == home {
				if p.Cast[ci] && p.B[home+3] == col*Rook && p.B[home+1] == 0 && p.B[home+2] == 0 {
					ms = append(ms, Move{s, home + 2, Castling, 0})
				}
				if p.Cast[ci+1] && p.B[home-4] == col*Rook && p.B[home-1] == 0 && p.B[home-2] == 0 && p.B[home-3] == 0 {
					ms = append(ms, Move{s, home - 2, Castling, 0})
				}
			}
		default:
			var dirs [][2]int
			if pt(pc) == Rook || pt(pc) == Queen {
				dirs = append(dirs, rookD[:]...)
			}
			if pt(pc) == Bishop || pt(pc) == Queen {
				dirs = append(dirs, bishopD[:]...)
			}
			for _, d := range dirs {
				f, r := f0+d[0], r0+d[1]
				for on(f, r) {
					to := r*8 + f
					if p.B[to] == 0 {
						ms = append(ms, Move{s, to, Normal, 0})
					} else {
						if sign(p.B[to]) != int(col) {
							ms = append(ms, Move{s, to, Normal, 0})
						}
						break
					}
					f, r = f+d[0], r+d[1]
				}
			}
		}
	}
	return ms
}

// IsLegal tests a pseudo-legal move for legality by the Laws.
func (p *Pos) IsLegal(m Move) bool {
	if m.Kind == Castling {
		// not out of, through or into check
		step := 1
		if m.To < m.From {
			step = -1
		}
		for s := m.From; s != m.To+step; s += step {
			if p.Attacked(s, !p.White) {
				return false
			}
		}
		return true
	}
	q := p.Make(m)
	return !q.InCheck(p.White)
}

// LegalMoves returns all legal moves.
func (p *Pos) LegalMoves() []Move {
	var res []Move
	for _, m := range p.PseudoMoves() {
		if p.IsLegal(m) {
			res = append(res, m)
		}
	}
	return res
}

// Make returns the successor position (the move is assumed pseudo-legal).
func (p *Pos) Make(m Move) *Pos {
	q := p.Clone()
	pc := q.B[m.From]
	col := int8(sign(pc))
	capture := q.B[m.To] != 0
	q.B[m.From] = 0
	q.B[m.To] = pc
	q.EP = -1
	switch m.Kind {
	case Promotion:
		q.B[m.To] = col * m.Promo
	case EnPassant:
		capture = true
		q.B[rank(m.From)*8+file(m.To)] = 0
	case Castling:
		if m.To > m.From {
			q.B[m.From+3] = 0
			q.B[m.From+1] = col * Rook
		} else {
			q.B[m.From-4] = 0
			q.B[m.From-1] = col * Rook
		}
	}
	if pt(pc) == Pawn && abs(m.To-m.From) == 16 {
		q.EP = (m.From + m.To) / 2
	}
	// castling rights
	for _, s := range []int{m.From, m.To} {
		switch s {
		case 4:
			q.Cast[0], q.Cast[1] = false, false
		case 60:
			q.Cast[2], q.Cast[3] = false, false
		case 7:
			q.Cast[0] = false
		case 0:
			q.Cast[1] = false
		case 63:
			q.Cast[2] = false
		case 56:
			q.Cast[3] = false
		}
	}
	if capture || pt(pc) == Pawn {
		q.Half = 0
	} else {
		q.Half = p.Half + 1
	}
	if !p.White {
		q.Full = p.Full + 1
	}
	q.White = !p.White
	return q
}

// IsCapture (incl. en passant)
func (p *Pos) IsCapture(m Move) bool { return p.B[m.To] != 0 || m.Kind == EnPassant }

// Valid reports whether the position is a legal chess position in the sense of the
// properties: exactly one king each, side not to move not in check, no pawns on 1/8.
func (p *Pos) Valid() bool {
	wk, bk := 0, 0
	for s := 0; s < 64; s++ {
		switch p.B[s] {
		case King:
			wk++
		case -King:
			bk++
		case Pawn, -Pawn:
			if rank(s) == 0 || rank(s) == 7 {
				return false
			}
		}
	}
	if wk != 1 || bk != 1 {
		return false
	}
	if p.InCheck(!p.White) {
		return false
	}
	// castling rights consistent
	if p.Cast[0] && (p.B[4] != King || p.B[7] != Rook) {
		return false
	}
	if p.Cast[1] && (p.B[4] != King || p.B[0] != Rook) {
		return false
	}
	if p.Cast[2] && (p.B[60] != -King || p.B[63] != -Rook) {
		return false
	}
	if p.Cast[3] && (p.B[60] != -King || p.B[56] != -Rook) {
		return false
	}
	// ep consistent: target on rank 6 (white to move) / 3, empty, pushed pawn in front, origin square empty
	if p.EP >= 0 {
		if p.White {
			if rank(p.EP) != 5 || p.B[p.EP] != 0 || p.B[p.EP-8] != -Pawn || p.B[p.EP+8] != 0 {
				return false
			}
		} else {
			if rank(p.EP) != 2 || p.B[p.EP] != 0 || p.B[p.EP+8] != Pawn || p.B[p.EP-8] != 0 {
				return false
			}
		}
	}
	return true
}

// PerftCounters mirrors the counter definitions used by the engine's perft.
type PerftCounters struct {
	Nodes, Captures, EnPassant, Checks, NoMoves, Castles, Promotions uint64
}

func (p *Pos) Perft(depth int, c *PerftCounters) uint64 {
	var n uint64
	for _, m := range p.LegalMoves() {
		q := p.Make(m)
		if depth > 1 {
			n += q.Perft(depth-1, c)
			continue
		}
		n++
		if c != nil {
			if p.IsCapture(m) {
				c.Captures++
			}
			if m.Kind == EnPassant {
				c.EnPassant++
			}
			if m.Kind == Castling {
				c.Castles++
			}
			if m.Kind == Promotion {
				c.Promotions++
			}
			if q.InCheck(q.White) {
				c.Checks++
			}
			if len(q.LegalMoves()) == 0 {
				c.NoMoves++
			}
		}
	}
	if c != nil {
		c.Nodes = n
	}
	return n
}

// Mirror flips the board vertically and swaps colours, rights, side and ep.
func (p *Pos) Mirror() *Pos {
	q := &Pos{EP: -1, Half: p.Half, Full: p.Full, White: !p.White}
	for s := 0; s < 64; s++ {
		q.B[(7-rank(s))*8+file(s)] = -p.B[s]
	}
	q.Cast = [4]bool{p.Cast[2], p.Cast[3], p.Cast[0], p.Cast[1]}
	if p.EP >= 0 {
		q.EP = (7-rank(p.EP))*8 + file(p.EP)
	}
	return q
}

// SAN returns the standard algebraic notation of a legal move (minimal disambiguation,
// capture mark, =Q promotion, + and # decorations).
func (p *Pos) SAN(m Move) string { return p.SANOpts(m, true, true, true) }

// SANOpts: withX capture mark, withEq '=' before promotion piece, withCheck decorations.
func (p *Pos) SANOpts(m Move, withX, withEq, withCheck bool) string {
	var s string
	pc := pt(p.B[m.From])
	switch {
	case m.Kind == Castling && m.To > m.From:
		s = "O-O"
	case m.Kind == Castling:
		s = "O-O-O"
	case pc == Pawn:
		if p.IsCapture(m) {
			s = string(byte('a' + file(m.From)))
			if withX {
				s += "x"
			}
		}
		s += SqName(m.To)
		if m.Kind == Promotion {
			if withEq {
				s += "="
			}
			s += string(pieceChars[m.Promo])
		}
	default:
		s = string(pieceChars[pc])
		// disambiguation among legal moves of same piece type to same target
		var others []Move
		for _, o := range p.LegalMoves() {
			if o.To == m.To && o.From != m.From && pt(p.B[o.From]) == pc {
				others = append(others, o)
			}
		}
		if len(others) > 0 {
			sameFile, sameRank := false, false
			for _, o := range others {
				if file(o.From) == file(m.From) {
					sameFile = true
				}
				if rank(o.From) == rank(m.From) {
					sameRank = true
				}
			}
			switch {
			case !sameFile:
				s += string(byte('a' + file(m.From)))
			case !sameRank:
				s += string(byte('1' + rank(m.From)))
			default:
				s += SqName(m.From)
			}
		}
		if p.IsCapture(m) && withX {
			s += "x"
		}
		s += SqName(m.To)
	}
	if withCheck {
		q := p.Make(m)
		if q.InCheck(q.White) {
			if len(q.LegalMoves()) == 0 {
				s += "#"
			} else {
				s += "+"
			}
		}
	}
	return s
}

// FindUci finds the legal move with the given coordinate notation (promotion letter any case).
func (p *Pos) FindUci(u string) (Move, bool) {
	u = strings.ToLower(u)
	for _, m := range p.LegalMoves() {
		if m.String() == u {
			return m, true
		}
	}
	return Move{}, false
}

// Material counts for dead-position classification.
type Material struct {
	P, N, B, R, Q [2]int // index 0 white, 1 black
	BishopSq      [2][]int
}

func (p *Pos) Material() Material {
	var m Material
	for s := 0; s < 64; s++ {
		pc := p.B[s]
		if pc == 0 {
			continue
		}
		c := 0
		if pc < 0 {
			c = 1
		}
		switch pt(pc) {
		case Pawn:
			m.P[c]++
		case Knight:
			m.N[c]++
		case Bishop:
			m.B[c]++
			m.BishopSq[c] = append(m.BishopSq[c], s)
		case Rook:
			m.R[c]++
		case Queen:
			m.Q[c]++
		}
	}
	return m
}

func SquareColor(s int) int { return (file(s) + rank(s)) % 2 }
