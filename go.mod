module github.com/frankkopp/FrankyGo/verif

go 1.14

require github.com/frankkopp/FrankyGo v0.0.0

replace github.com/frankkopp/FrankyGo => /repo
